"""C22 — Each SQL transaction reads a stable snapshot."""
from props import sqlsched_gen as G

ID = "C22"
HARNESS_PKG = "c22"
HARNESS_RUNNER = "c22"
COQ_TARGETS = ["theories/C22/AsOf.vo"]
COQ_CORR_MODULE = "C23.Model C23.Spec C23.Corr C23.Staged C23.Corr3 C22.Model C22.Spec C22.Corr C22.AsOf"
COQ_CASE_TYPE = "C22.AsOf.acase"
COQ_CHECK = "C22.AsOf.check_any"
COQ_SHARD = 400
DESIGN_REF = "§5 C22"
TECHNIQUE = ("Coq proof over every interleaving of the transaction machine shared with C23 (snapshot at BEGIN, own working table, commit publishes) "
             "+ in-Coq correspondence on generated multi-session SQL schedules, reads checked against an independent replay specification")
LEVEL_TEXT = ("Proof (F/M, partial overall): for every interleaving of sessions Coq proves that steps of other sessions (including their commits) never "
              "change a session's snapshot or working table; that inside a transaction a session's reads are exactly those of running its own statements "
              "alone on its table (snapshot overlaid with own writes); that every snapshot is a committed state (the initial one or the result of an "
              "acknowledged commit), so uncommitted writes of others are never read; and that a transaction started after a commit reads the committed state. "
              "Partial: the engine's per-session root caching and revision-database plumbing are abstracted as 'copy the committed table'; the tie is the "
              "correspondence run (every result set of generated 2-4 session schedules, autocommit on and off, compared inside Coq).")
LEVEL_NOTE = ("Trusted: Coq kernel, Go harness + Python glue. Modelled, not verified: go-mysql-server execution of the statements, session state caching "
              "(dsess.DoltSession.clear / dbStates), one database, one branch, one table (reads of other branches via AS OF / revision databases are outside "
              "this model), true parallelism (statements are issued one at a time).")
THEOREMS = ["others_invisible", "snapshot_stable", "no_dirty_read", "visible_after_commit_and_begin", "implicit_begin_reads_committed", "oracle_accepts_model",
            "start_roots_stable", "as_of_head_snapshot_stable"]
RULE = ("schedules of 8-30 statements over 2-4 sessions (some autocommit) on t(pk,a,b), read-heavy mix (SELECT / SELECT WHERE pk=k 35%); every session "
        "commits at the end; non-trivial = a session reads while another session has committed or written since its snapshot; distinct by schedule content")
ASSUMPTIONS = ["single database / branch / table; statements issued one at a time",
               "a transaction that read through an upper / mixed-case spelling of the database name ends with COMMIT / ROLLBACK, not DOLT_COMMIT (observed quirk on the clean "
               "tree: such a DOLT_COMMIT with nothing to commit is acknowledged as an empty commit instead of failing with 'nothing to commit')",
               "revision reads covered: AS OF 'HEAD', AS OF 'main', `db/main`.t and AS OF 'STAGED' inside transactions while other sessions SQL-commit and DOLT_COMMIT; "
               "AS OF 'HEAD~n' is not modelled (the first commit of the test database has no table)"]
REQUIRED_TAGS = ["read", "read-after-foreign-commit", "read-own-write", "commit-ok", "commit-conflict", "autocommit", "rollback", "begin-in-txn",
                 "roots-case", "asof-head-in-txn", "asof-head-in-txn-after-foreign-dolt-commit", "asof-branch-in-txn", "revdb-read-in-txn", "asof-staged-in-txn",
                 "asof-head-uppercase-db-in-txn", "asof-branch-mixedcase-db-in-txn", "asof-othercase-db-in-txn-after-foreign-dolt-commit"]


from props import c23 as P23


def gen_asof(rng):
    c = P23.gen_roots(rng)
    steps = []
    for st in c["steps"]:
        steps.append(st)
        if rng.random() < 0.35:
            steps.append([rng.randrange(c["nsess"]), rng.choice([12, 12, 12, 13, 14, 15, 16, 16, 17]), 0, 0, 0])
    # Observed on the clean tree: after a read through another spelling of the database name, a DOLT_COMMIT of the
    # same transaction with nothing to commit is acknowledged (an empty commit) instead of "nothing to commit".
    # That is outside this property; such a transaction ends with a plain COMMIT here (see ASSUMPTIONS).
    other = set()
    for st in steps:
        i, k = st[0], st[1]
        if k in (16, 17):
            other.add(i)
        elif k in (9, 11) and i in other:
            st[1] = G.K_COMMIT
        if st[1] in (G.K_COMMIT, G.K_ROLLBACK, 9, 11):
            other.discard(i)
    c["steps"] = steps
    return c


FIXED_ASOF = [
    # the same with the database name written in upper / mixed case
    {"mode": "roots", "init": [[1, 0, 0]], "nsess": 2, "autos": [],
     "steps": [[0, 0, 0, 0, 0], [0, 16, 0, 0, 0], [0, 17, 0, 0, 0], [1, 4, 2, 2, 2], [1, 11, 0, 0, 0], [0, 16, 0, 0, 0], [0, 17, 0, 0, 0],
               [0, 12, 0, 0, 0], [0, 1, 0, 0, 0], [0, 16, 0, 0, 0]]},
    # A reads t AS OF 'HEAD', B writes and dolt-commits on the same branch, A reads AS OF 'HEAD' again in the same transaction
    {"mode": "roots", "init": [[1, 0, 0]], "nsess": 2, "autos": [],
     "steps": [[0, 0, 0, 0, 0], [0, 12, 0, 0, 0], [0, 13, 0, 0, 0], [0, 14, 0, 0, 0], [1, 4, 2, 2, 2], [1, 11, 0, 0, 0],
               [0, 12, 0, 0, 0], [0, 13, 0, 0, 0], [0, 14, 0, 0, 0], [0, 15, 0, 0, 0], [0, 1, 0, 0, 0], [0, 12, 0, 0, 0]]},
    {"mode": "roots", "init": [[1, 0, 0]], "nsess": 2, "autos": [],
     "steps": [[0, 5, 1, 0, 1], [0, 12, 0, 0, 0], [1, 5, 1, 1, 2], [1, 11, 0, 0, 0], [0, 12, 0, 0, 0], [0, 14, 0, 0, 0], [0, 11, 0, 0, 0], [0, 12, 0, 0, 0]]},
]


def gen_cases(rng, tier):
    cases = G.gen_cases_txn(rng, tier, read_bias=0.30)
    if tier == "quick":
        cases = cases[:220]
    cases += [dict(c) for c in FIXED_ASOF]
    for _ in range(150 if tier == "quick" else 5000):
        cases.append(gen_asof(rng))
    return cases


def coq_case(case, out):
    if case.get("mode") == "roots":
        return "E3 " + P23.coq_case(case, out)[len("A3 "):]
    return "E1 " + G.coq_case_txn(case, out)


def classify_asof(case, out):
    o = out.get("obs")
    if o is None:
        return ["panic", "roots-case"]
    t = set(P23.classify3(case, out))
    start = {}       # session -> head version at transaction start
    hv = 0
    for st, s in zip(case["steps"], o["steps"]):
        i, k = st[0], st[1]
        if k == G.K_BEGIN:
            start[i] = hv
            continue
        if i not in start and k != G.K_ROLLBACK:
            start[i] = hv
        if 12 <= k <= 17 and s["err"] == 0:
            name = {12: "asof-head-in-txn", 13: "asof-branch-in-txn", 14: "revdb-read-in-txn", 15: "asof-staged-in-txn",
                    16: "asof-head-uppercase-db-in-txn", 17: "asof-branch-mixedcase-db-in-txn"}[k]
            t.add(name)
            if k == 12 and start.get(i, hv) != hv:
                t.add("asof-head-in-txn-after-foreign-dolt-commit")
            if k in (16, 17) and start.get(i, hv) != hv:
                t.add("asof-othercase-db-in-txn-after-foreign-dolt-commit")
        if k in (9, 11) and s["err"] == 0:
            hv += 1
        if k in (G.K_COMMIT, G.K_ROLLBACK, 9, 11):
            start.pop(i, None)
    return sorted(t)




def classify(case, out):
    if case.get("mode") == "roots":
        return classify_asof(case, out)
    return G.classify_txn(case, out, reads=True)


def nontrivial(case, out):
    return "read-after-foreign-commit" in classify(case, out)


_SHRINK_BUDGET = [40]


def shrink_candidates(case):
    for c in G.shrink_txn(case):
        if _SHRINK_BUDGET[0] <= 0:
            return
        _SHRINK_BUDGET[0] -= 1
        yield c


def neighbours(case, rng):
    if case.get("mode") == "roots":
        return [gen_asof(rng) for _ in range(40)]
    return G.neighbours_txn(case, rng)
