"""C14 — Three-way tree merges follow key-wise merge semantics."""
from lib import vlib
from lib.vlib import cq_list, cq_bool

ID = "C14"
HARNESS_PKG = "c14"
HARNESS_RUNNER = "c14"
COQ_TARGETS = ["theories/C14/Corr.vo"]
COQ_CORR_MODULE = "C14.Model C14.Spec C14.Corr"
COQ_CASE_TYPE = "C14.Corr.case"
COQ_CHECK = "C14.Corr.check_case"
COQ_MODEL_OBS = "(fun c => C14.Corr.model_obs (fst c))"
COQ_SHARD = 150
DESIGN_REF = "§5 C14"
TECHNIQUE = ("Coq proof at dictionary level (every algorithm is a walk over two key-ordered streams; one generic lemma gives its key-wise meaning) "
             "+ in-Coq correspondence against tree.ThreeWayDiffer and prolly.MergeMaps with a recording collision handler")
LEVEL_TEXT = ("Proof (F/M): for every strictly sorted base/left/right and every collision handler, the three-way differ classifies each key per the "
              "declarative rule and calls the handler on exactly the divergent keys (three_way_differ_spec, three_way_calls_spec); the patch merge "
              "yields the key-wise merge function (patch_merge_spec); both routes call the handler identically (calls_agree) and, for handlers that "
              "resolve a divergent delete to 'deleted', give the same map (patch_merge_eq_differ). Range (chunk-level) patches: every stream of "
              "patches in which each range patch carries exactly the right map's entries of its range and the left side changed nothing in that "
              "range, and which covers every point change, applied to the left map gives the same merged map - however ranges were chosen and "
              "split (range_patches_sound, range_patch_is_its_points). That the REAL stream satisfies these two conditions is checked on every "
              "recorded stream of tree.SendPatches (stream_okb), together with apply_stream(stream) = result. oracle_on_model: the executable "
              "statement holds on the model's observation for every input and every handler mode. Partial: PatchGenerator's cursor code itself "
              "is not modelled (its output is validated per run); canonical shape of the result is C12's theorem plus the observed root hash.")
LEVEL_NOTE = ("Trusted: Coq kernel, Go harness + Python glue. Modelled, not verified: PatchGenerator / SendPatches cursor juggling (their emitted "
              "stream is recorded and checked against patch_ok + coverage each run), ApplyPatches' single pass (modelled as the patches applied in "
              "sequence), tuple byte comparison (values are numbers).")
THEOREMS = ["three_way_differ_spec", "three_way_calls_spec", "send_calls_spec", "calls_agree", "patch_merge_spec", "differ_merge_spec",
            "patch_merge_eq_differ", "range_patches_sound", "range_patch_is_its_points", "oracle_on_model", "collide_mode_delete",
            "walk_lookup", "sorted_ext"]
RULE = ("(base,left,right) built per key from the 13 change patterns (unchanged, one-sided add/modify/delete, convergent, divergent modify/modify, "
        "delete/modify, modify/delete, add/add) with block edits that add or remove whole chunks, empty sides, 5 handler behaviours; "
        "non-trivial = at least one key changed on the right")
ASSUMPTIONS = ["the handler resolves a divergent delete only to 'deleted' (what the differ route assumes; visible as delete_resolves_to_delete in the theorem)"]
REQUIRED_TAGS = ["op0", "op1", "op2", "op3", "op4", "op5", "op6", "op7", "op8", "op9", "op10", "op11", "op12", "callback", "multi-chunk",
                 "height2", "empty-base", "empty-left", "empty-right", "resolved-delete", "block-add", "block-delete", "range-patch", "point-patch", "range-and-point-patches",
                 "height>=3-merge", "last-leaf-edit", "first-leaf-edit", "left-edit-on-right-range-end", "left-edit-on-right-range-start",
                 "left-insert-inside-right-removed-range", "left-insert-inside-right-removed-range-head"]
HARNESS_TIMEOUT = 900


def build(rng, keys, block=None):
    base, left, right = [], [], []
    for k in keys:
        p = rng.random()
        v = rng.randint(0, 400)
        if p < 0.35:            # unchanged
            base.append([k, v]); left.append([k, v]); right.append([k, v])
        elif p < 0.40:          # left add
            left.append([k, v])
        elif p < 0.45:          # right add
            right.append([k, v])
        elif p < 0.50:          # left modify
            base.append([k, v]); left.append([k, v + 1]); right.append([k, v])
        elif p < 0.55:          # right modify
            base.append([k, v]); left.append([k, v]); right.append([k, v + 1])
        elif p < 0.60:          # left delete
            base.append([k, v]); right.append([k, v])
        elif p < 0.65:          # right delete
            base.append([k, v]); left.append([k, v])
        elif p < 0.70:          # convergent add
            left.append([k, v]); right.append([k, v])
        elif p < 0.75:          # convergent modify
            base.append([k, v]); left.append([k, v + 2]); right.append([k, v + 2])
        elif p < 0.80:          # convergent delete
            base.append([k, v])
        elif p < 0.86:          # divergent modify
            base.append([k, v]); left.append([k, v + 1 + rng.randint(0, 3)]); right.append([k, v + 5 + rng.randint(0, 3)])
        elif p < 0.90:          # left delete, right modify
            base.append([k, v]); right.append([k, v + 1 + rng.randint(0, 3)])
        elif p < 0.94:          # left modify, right delete
            base.append([k, v]); left.append([k, v + 1 + rng.randint(0, 3)])
        else:                   # divergent add
            left.append([k, v]); right.append([k, v + 1 + rng.randint(0, 3)])
    return base, left, right


def gen_one(rng, big=False):
    if big:
        n = rng.randint(500, 1100)
        keys = sorted(rng.sample(range(4 * n), n))
        # mostly unchanged keys, a few scattered edits, and block edits covering whole chunks
        base, left, right = [], [], []
        blocks = []
        for _ in range(rng.randint(1, 3)):
            a = rng.randrange(len(keys)); blocks.append((a, a + rng.randint(60, 260), rng.choice(["radd", "rdel", "ladd", "ldel", "rmod", "both"])))
        for i, k in enumerate(keys):
            v = rng.randint(0, 400)
            kind = None
            for a, b, what in blocks:
                if a <= i < b:
                    kind = what
            if kind == "radd":
                right.append([k, v])
            elif kind == "ladd":
                left.append([k, v])
            elif kind == "rdel":
                base.append([k, v]); left.append([k, v])
            elif kind == "ldel":
                base.append([k, v]); right.append([k, v])
            elif kind == "rmod":
                base.append([k, v]); left.append([k, v]); right.append([k, v + 1])
            elif kind == "both":
                b1, l1, r1 = build(rng, [k]); base += b1; left += l1; right += r1
            elif rng.random() < 0.03:
                b1, l1, r1 = build(rng, [k]); base += b1; left += l1; right += r1
            else:
                base.append([k, v]); left.append([k, v]); right.append([k, v])
        return {"base": base, "left": left, "right": right, "mode": rng.randint(0, 4), "pad": rng.choice([40, 90, 200]),
                "blocks": [b[2] for b in blocks]}
    n = rng.choice([0, 1, 2, 3, 5, 8, 12, 20, 40])
    keys = sorted(rng.sample(range(max(1, 3 * n)), n)) if n else []
    base, left, right = build(rng, keys)
    z = rng.random()
    if z < 0.06:
        base = []
    elif z < 0.12:
        left = []
    elif z < 0.18:
        right = []
    return {"base": base, "left": left, "right": right, "mode": rng.randint(0, 4), "pad": rng.choice([0, 0, 30])}


SCENS = ["tail", "head", "range-end", "range-start", "removed-insert", "removed-insert-head"]


def gen_scen(rng, scen=None):
    """boundary-aware cases on tall trees (wide keys): the harness places the edits on chunk edges"""
    return {"base": [], "left": [], "right": [], "mode": rng.randint(0, 4), "pad": rng.choice([0, 20]),
            "scen": scen or rng.choice(SCENS), "seed": rng.randrange(1 << 30), "n": rng.randint(40, 160),
            "kpad": rng.choice([700, 1000, 1400]), "shift": rng.randint(0, 4)}


def _inp(case, out):
    o = (out or {}).get("obs") or {}
    return o.get("in") or case


def gen_cases(rng, tier):
    quick = tier == "quick"
    cases = []
    for sc in SCENS:
        for _ in range(16 if quick else 200):
            cases.append(gen_scen(rng, sc))
    for _ in range(400 if quick else 8000):
        cases.append(gen_one(rng))
    for _ in range(16 if quick else 300):
        cases.append(gen_one(rng, big=True))
    return cases


def _opt(x):
    return "None" if x is None else "(Some %d)" % x


def _dict(es):
    return cq_list("(%d, %d)" % (k, v) for k, v in es)


def _triple(c):
    return "(%s, %s, %s)" % (_opt(c.get("b")), _opt(c.get("l")), _opt(c.get("r")))


def coq_case(case, out):
    o = out.get("obs")
    src = _inp(case, out)
    inp = "{| i_base := %s; i_left := %s; i_right := %s; i_mode := %d |}" % (
        _dict(src["base"]), _dict(src["left"]), _dict(src["right"]), case["mode"])
    if o is None or out.get("err"):
        return "(%s, {| d_ops := [(0, (99, None, None)); (0, (99, None, None))]; d_calls := []; p_res := []; p_calls := []; p_canon := false; p_stream := [] |})" % inp
    dops = cq_list("(%d, (%d, %s, %s))" % (x["k"], x["op"], _opt(x.get("r")), _opt(x.get("m"))) for x in o["dops"])
    dcalls = cq_list(_triple(c) for c in o["dcalls"])
    pcalls = cq_list("(%d, %s)" % (c["k"], _triple(c)) for c in o["pcalls"])
    stream = cq_list(("(PPoint %d %s)" % (p["k"], _opt(p.get("to")))) if p["lvl"] == 0 else
                     ("(PRange %s %d %s)" % (_opt(p.get("lo")), p["k"], _dict(p.get("c") or []))) for p in o["stream"])
    return "(%s, {| d_ops := %s; d_calls := %s; p_res := %s; p_calls := %s; p_canon := %s; p_stream := %s |})" % (
        inp, dops, dcalls, _dict(o["pres"]), pcalls, cq_bool(o["pcanon"]), stream)


def classify(case, out):
    o = out.get("obs")
    if o is None or out.get("err"):
        return ["error"]
    t = ["mode%d" % case["mode"]]
    for x in o["dops"]:
        tag = "op%d" % x["op"]
        if tag not in t:
            t.append(tag)
    if o["pcalls"]:
        t.append("callback")
    if o["chunks"] > 1:
        t.append("multi-chunk")
    t.append("height%d" % o["height"])
    src = _inp(case, out)
    for nm in ("base", "left", "right"):
        if not src[nm]:
            t.append("empty-" + nm)
    if case.get("scen") and not o.get("note"):
        sc = case["scen"]
        t.append("scen:" + sc)
        if o.get("rheight", 0) >= 3:
            t.append("height>=3-merge")
        t.append({"tail": "last-leaf-edit", "head": "first-leaf-edit", "range-end": "left-edit-on-right-range-end",
                  "range-start": "left-edit-on-right-range-start", "removed-insert": "left-insert-inside-right-removed-range",
                  "removed-insert-head": "left-insert-inside-right-removed-range-head"}[sc])
        if sc in ("range-end", "range-start") and any(p["lvl"] > 0 for p in o["stream"]):
            t.append(sc + ":range-sent")
        if sc.startswith("removed-insert") and any(p["lvl"] > 0 and not p.get("c") for p in o["stream"]):
            t.append(sc + ":removed-range-sent")
    if any(x["op"] == 12 for x in o["dops"]):
        t.append("resolved-delete")
    for b in case.get("blocks", []):
        if b in ("radd", "ladd"):
            t.append("block-add")
        if b in ("rdel", "ldel"):
            t.append("block-delete")
    if not o["pcanon"]:
        t.append("non-canonical-result")
    if any(p["lvl"] > 0 for p in o["stream"]):
        t.append("range-patch")
    if any(p["lvl"] > 0 and not p.get("c") for p in o["stream"]):
        t.append("range-patch-removed-chunk")
    if any(p["lvl"] > 0 for p in o["stream"]) and any(p["lvl"] == 0 for p in o["stream"]):
        t.append("range-and-point-patches")
    if any(p["lvl"] == 0 for p in o["stream"]):
        t.append("point-patch")
    return list(dict.fromkeys(t))


def nontrivial(case, out):
    o = out.get("obs")
    return bool(o) and any(x["op"] in (1, 3, 5, 9, 10, 11, 12) for x in o["dops"])


def shrink_candidates(case):
    if case.get("scen"):
        if case["n"] > 40:
            c = dict(case); c["n"] = max(40, case["n"] * 3 // 4)
            yield c
        return
    ks = sorted({e[0] for nm in ("base", "left", "right") for e in case[nm]})
    def without(drop):
        c = dict(case)
        for nm in ("base", "left", "right"):
            c[nm] = [e for e in case[nm] if e[0] not in drop]
        return c
    n = len(ks)
    if n > 1:
        yield without(set(ks[: n // 2]))
        yield without(set(ks[n // 2:]))
    if n <= 40:
        for k in ks:
            yield without({k})


def neighbours(case, rng):
    out = []
    for m in range(5):
        c = dict(case); c["mode"] = m
        out.append(c)
    for _ in range(30):
        out.append(gen_one(rng))
    return out


def search_cases(rng):
    return [gen_one(rng, big=True) for _ in range(5)]
