"""C15 — Tuple encodings round-trip and sort like the SQL values they encode."""
from lib.vlib import cq_bytes, cq_bool, cq_list

ID = "C15"
HARNESS_PKG = "c15"
HARNESS_RUNNER = "c15"
COQ_TARGETS = ["theories/C15/Corr.vo"]
COQ_CORR_MODULE = "Base.Str C15.Model C15.Spec C15.Corr"
COQ_CASE_TYPE = "C15.Corr.case"
COQ_CHECK = "C15.Corr.check_case"
COQ_MODEL_OBS = "(fun c => C15.Corr.model_obs (fst c))"
COQ_SHARD = 250
DESIGN_REF = "§5 C15"
TECHNIQUE = ("Coq proof (byte-level codecs, tuple layout, builder and comparison of go/store/val; round-trip, order and canonical-form "
             "theorems for every value) + regenerated size/shift constants + in-Coq correspondence on tuples built by the real TupleBuilder")
LEVEL_TEXT = ("Proof (F/M): for every encoding of the model (int8..int64, uint8..uint64, float32/64, bit64, enum, set, year, date, time, "
              "datetime, decimal, string, bytes, hash128, address, cell, inline adaptive) decode(encode v) = v and compare(encode a, encode b) = SQL "
              "order of a and b are proved for every value of the domain; for floats the bit-pattern comparison is proved to be the order of "
              "the numeric values for all non-NaN patterns (-0 = +0, subnormals, infinities), with NaN as implemented (answer 1, not an order); "
              "decimal comparison is the order of the exact values c*10^e. NewTuple/GetField/Count read back every field of every row within "
              "the size limits; rows equal up to trailing NULLs have identical bytes (and conversely); tuple comparison is the field-by-field "
              "order with NULL first. oracle_on_model: the executable statement of the property holds of the model (builder with adaptive "
              "normalisation, read-back through the value store, comparison, canonical form) on every well-formed input outside the F9 class. "
              "'Byte-identical no matter how built' is refuted for adaptive values supplied out of band to a small tuple (F9, API level).")
LEVEL_NOTE = ("Trusted: Coq kernel, translator (sizes/shifts/limits), Go harness + Python glue. Modelled, not verified: Go's integer "
              "conversions (two's complement), encoding/binary, time.Date calendar arithmetic (dates are year/month/day triples), apd.Decimal "
              "Cmp (modelled as exact numeric comparison), Go's ==/< on floats (modelled on bit patterns: sign-magnitude key, NaN unordered), "
              "the content-addressed value store (an oracle address -> content fed from the implementation). Encodings of val.Encoding not "
              "separately modelled: JSONEnc and GeometryEnc (legacy; same writeByteString/readByteString codec as ByteStringEnc, and compare() "
              "has no case for them: it panics 'unknown encoding'); BytesAddr/StringAddr/JSONAddr/GeomAddr/CommitAddr are all the 20-byte EAddr; "
              "GeomAdaptiveEnc is the adaptive codec with byte comparison; JsonAdaptiveEnc compares as JSON documents (C17); ExtendedEnc / "
              "ExtendedAddrEnc / ExtendedAdaptiveEnc delegate to Doltgres type handlers (outside the model); collations (CollationTupleComparator) "
              "are outside the model. The SQLite4 varint only prefixes out-of-band adaptive values and is never compared for order, so its "
              "lexicographic order is not needed (not proved).")
THEOREMS = ["dec_enc", "cmp_enc", "float_compare_value", "cmp_enc_float32", "cmp_enc_float64", "float_compare_nan",
            "decimal_compare_scale_invariant", "tuple_roundtrip", "tuple_count", "new_tuple_canonical", "new_tuple_drops_trailing_nulls",
            "new_tuple_injective", "tuple_compare_spec", "build_plain_is_new_tuple", "build_repr_independent_partial",
            "vi_roundtrip", "builder_reuse_is_fresh", "builder_history_canonical", "oracle_on_model", "build_repr_independent_refuted", "consts_pinned"]
REFUTED = ["build_repr_independent_refuted"]
RULE = ("tuple descriptors of 1-12 columns over all modelled encodings with random nullability, two rows per case (second row = "
        "perturbation of the first: equal, one field changed, trailing NULLs added/removed, or independent); values are boundary values "
        "(0, +-1, min, max, 2^k, 2^k+-1) and random ones; sweep cases enumerate all 8-bit values (and all 16-bit ones in the thorough tier); "
        "non-trivial = at least one non-NULL field; distinct by case content")
ASSUMPTIONS = ["NULL only in nullable columns (Build panics otherwise)",
               "dates are valid calendar dates with year 0..9999 or the zero date",
               "adaptive contents stay below the 4000-byte blob chunk size (the chunked comparison is C16's model)",
               "decimal exponents within +-60 so that exact comparison stays cheap",
               "tuple data within MaxTupleDataSize and at most MaxTupleFields columns"]
REQUIRED_TAGS = ["history", "buildprefix-then-reuse", "reuse-with-unset-field", "null-field", "trailing-null", "all-null", "cmp-lt", "cmp-eq", "cmp-gt", "signed-negative", "string", "decimal", "date",
                 "float", "adaptive-inline", "adaptive-outline", "adaptive-normalised", "sweep8", "fast-access", "canonical-pair"]

KNOWN_KEY_F9 = "TupleBuilder.BuildPermissive:small-outline-kept"

ENCS = ["int8", "uint8", "int16", "uint16", "int32", "uint32", "int64", "uint64", "float32", "float64", "bit64", "decimal", "year",
        "date", "time", "datetime", "enum", "set", "string", "bytes", "hash128", "addr", "cell", "stradapt", "bytesadapt"]
COQ_ENC = {"int8": "EInt8", "uint8": "EUint8", "int16": "EInt16", "uint16": "EUint16", "int32": "EInt32", "uint32": "EUint32",
           "int64": "EInt64", "uint64": "EUint64", "float32": "EFloat32", "float64": "EFloat64", "bit64": "EBit64", "decimal": "EDecimal",
           "year": "EYear", "date": "EDate", "time": "ETime", "datetime": "EDatetime", "enum": "EEnum", "set": "ESet", "string": "EString",
           "bytes": "EBytes", "hash128": "EHash128", "addr": "EAddr", "cell": "ECell", "stradapt": "EStrAdaptive", "bytesadapt": "EBytesAdaptive"}
SIGNED = {"int8": 8, "int16": 16, "int32": 32, "int64": 64, "time": 64, "datetime": 64}
UNSIGNED = {"uint8": 8, "uint16": 16, "uint32": 32, "uint64": 64, "bit64": 64, "enum": 16, "set": 64}
RAW = {"hash128": 16, "addr": 20, "cell": 17}
FIXED = set(SIGNED) | set(UNSIGNED) | set(RAW) | {"float32", "float64", "year", "date"}


def _boundary_unsigned(rng, bits):
    top = (1 << bits) - 1
    k = rng.randrange(0, bits)
    return min(top, rng.choice([0, 1, 2, 255, 256, top, top - 1, 1 << k, (1 << k) - 1, (1 << k) + 1, rng.randrange(0, top + 1),
                                rng.randrange(0, min(top, 300) + 1)]))


def _boundary_signed(rng, bits):
    lo, hi = -(1 << (bits - 1)), (1 << (bits - 1)) - 1
    k = rng.randrange(0, bits - 1)
    v = rng.choice([0, 1, -1, 2, -2, 127, 128, -128, -129, 255, 256, lo, lo + 1, hi, hi - 1, 1 << k, -(1 << k), (1 << k) - 1,
                    -(1 << k) - 1, (1 << k) + 1, rng.randrange(lo, hi + 1), rng.randrange(-300, 300)])
    return max(lo, min(hi, v))


def _rand_bytes(rng, n, alphabet=None):
    if alphabet is None:
        alphabet = rng.choice([list(range(256)), [0, 1, 255], list(range(97, 123)), [0], [255, 254]])
    return [rng.choice(alphabet) for _ in range(n)]


def _float_bits(rng, bits):
    ebits = 8 if bits == 32 else 11
    fbits = bits - 1 - ebits
    sign = rng.randrange(2) << (bits - 1)
    emax = (1 << ebits) - 1
    kind = rng.random()
    if kind < 0.15:
        e, f = 0, rng.choice([0, 1, (1 << fbits) - 1, rng.randrange(1 << fbits)])        # zero / subnormal
    elif kind < 0.25:
        e, f = emax, 0                                                                       # infinity
    elif kind < 0.32:
        e, f = emax, (1 << (fbits - 1)) | rng.choice([0, 1, rng.randrange(1 << (fbits - 1))])  # quiet NaN
    else:
        e = rng.choice([1, emax - 1, emax // 2, emax // 2 + 1, rng.randrange(1, emax)])
        f = rng.choice([0, 1, (1 << fbits) - 1, rng.randrange(1 << fbits)])
    return sign | (e << fbits) | f


def gen_value(rng, e):
    """A non-NULL cell for encoding e."""
    if e in SIGNED:
        return {"k": "z", "v": str(_boundary_signed(rng, SIGNED[e]))}
    if e in UNSIGNED:
        return {"k": "n", "v": str(_boundary_unsigned(rng, UNSIGNED[e]))}
    if e == "float32":
        return {"k": "n", "v": str(_float_bits(rng, 32))}
    if e == "float64":
        return {"k": "n", "v": str(_float_bits(rng, 64))}
    if e == "year":
        return {"k": "n", "v": str(rng.choice([0, 1901, 1902, 2155, 2154, 2000, rng.randrange(1901, 2156)]))}
    if e == "date":
        if rng.random() < 0.1:
            return {"k": "date"}
        y = rng.choice([1, 1000, 1969, 1970, 2000, 2024, 9999, rng.randrange(0, 10000)])
        m = rng.randrange(1, 13)
        d = rng.randrange(1, 29)
        return {"k": "date", "y": y, "m": m, "d": d}
    if e == "decimal":
        r = rng.random()
        if r < 0.06:
            return {"k": "dec", "form": "nan"}
        if r < 0.14:
            return {"k": "dec", "form": "inf", "neg": rng.random() < 0.5}
        k = rng.randrange(0, 200)
        coeff = rng.choice([0, 1, 9, 10, 255, 256, (1 << 63) - 1, 1 << 63, (1 << 64) - 1, 1 << 64, (1 << 64) + 1, (1 << 128) - 1, 1 << 128,
                            1 << k, (1 << k) - 1, rng.randrange(0, 10 ** rng.randrange(1, 66)), rng.randrange(0, 1000)])
        neg = coeff != 0 and rng.random() < 0.5
        return {"k": "dec", "form": "fin", "neg": neg, "coeff": str(coeff), "exp": rng.choice([0, 0, -1, 1, -2, -30, 30, rng.randrange(-60, 61)])}
    if e in ("string", "bytes"):
        n = rng.choice([0, 0, 1, 2, 3, 8, rng.randrange(0, 40), rng.randrange(0, 300)])
        b = _rand_bytes(rng, n)
        if e == "string":
            b = [x for x in b if x != 0] if rng.random() < 0.5 else b
        return {"k": "b", "b": b}
    if e in RAW:
        return {"k": "b", "b": _rand_bytes(rng, RAW[e], rng.choice([list(range(256)), [0, 255], [0], [7]]))}
    if e in ("stradapt", "bytesadapt"):
        n = rng.choice([0, 1, 5, 19, 20, 21, 22, 23, 40, 100, rng.randrange(0, 200), rng.randrange(200, 700)])
        return {"k": "ad", "b": _rand_bytes(rng, n, rng.choice([list(range(97, 123)), list(range(256)), [0, 1]]))}
    raise ValueError(e)


def perturb(rng, e, c):
    """A value near c (for comparisons that differ late)."""
    if c is None:
        return gen_value(rng, e)
    c = dict(c)
    if c["k"] == "z":
        bits = SIGNED[e]
        v = int(c["v"]) + rng.choice([-1, 1, -256, 256, 1 << (bits - 2), -(1 << (bits - 2))])
        c["v"] = str(max(-(1 << (bits - 1)), min((1 << (bits - 1)) - 1, v)))
    elif c["k"] == "n" and e in UNSIGNED:
        bits = UNSIGNED[e]
        v = int(c["v"]) + rng.choice([-1, 1, -256, 256, 1 << (bits - 1), -(1 << (bits - 1))])
        c["v"] = str(max(0, min((1 << bits) - 1, v)))
    elif c["k"] in ("b", "ad") and e not in RAW:
        b = list(c["b"])
        r = rng.random()
        if r < 0.3:
            b = b + [rng.choice([0, 1, 255])] if e != "string" or True else b
        elif r < 0.5 and b:
            b = b[:-1]
        elif b:
            i = rng.randrange(len(b))
            b[i] = (b[i] + rng.choice([1, 255])) % 256
        c["b"] = b
    elif c["k"] == "b":
        b = list(c["b"])
        i = rng.randrange(len(b))
        b[i] = (b[i] + rng.choice([1, 255])) % 256
        c["b"] = b
    else:
        return gen_value(rng, e)
    return c


def size_of(e, c):
    if c is None:
        return 0
    if e in SIGNED:
        return SIGNED[e] // 8
    if e in UNSIGNED:
        return UNSIGNED[e] // 8
    if e in RAW:
        return RAW[e]
    if e in ("string", "bytes", "stradapt", "bytesadapt"):
        return len(c["b"]) + 1
    if e == "decimal":
        if c.get("form", "fin") != "fin":
            return 4
        return 5 + 8 * ((int(c.get("coeff", "0")).bit_length() + 63) // 64)
    return {"year": 1, "date": 4, "float32": 4, "float64": 8}[e]


def gen_tuple_case(rng):
    r = rng.random()
    ncols = rng.choice([1, 1, 2, 3, 4, 5, 6, 8, 12])
    if r < 0.25:
        pool = [rng.choice(ENCS)]                       # single-encoding descriptor
    elif r < 0.45:
        pool = [e for e in ENCS if e in FIXED]           # fixed-width only (exercises the fast path)
    else:
        pool = ENCS
    types = []
    for i in range(ncols):
        e = rng.choice(pool)
        nullable = rng.random() < (0.25 if e in FIXED and i < 3 else 0.6)
        types.append({"e": e, "n": nullable})
    null_p = rng.choice([0.0, 0.15, 0.4, 0.9])
    a = []
    for t in types:
        a.append(None if (t["n"] and rng.random() < null_p) else gen_value(rng, t["e"]))
    # second row
    mode = rng.random()
    if mode < 0.2:
        b = [None if c is None else dict(c) for c in a]                                         # equal
    elif mode < 0.55:
        b = [None if c is None else dict(c) for c in a]
        i = rng.randrange(ncols)
        b[i] = None if (types[i]["n"] and rng.random() < 0.3) else perturb(rng, types[i]["e"], a[i])
    elif mode < 0.7:
        # B is a row written under the descriptor of the first `cut` columns (before nullable columns were appended);
        # A is the same row under the full descriptor, its nullable tail NULL (canonical pair) or, sometimes, not
        j = ncols
        while j > 0 and types[j - 1]["n"]:
            j -= 1
        cut = rng.randrange(max(j, 1), ncols + 1)
        keep_tail = rng.random() < 0.25
        for i in range(cut, ncols):
            if not keep_tail:
                a[i] = None
        b = [None if c is None else dict(c) for c in a[:cut]]
        if rng.random() < 0.2 and cut > 0:
            i = rng.randrange(cut)
            b[i] = None if (types[i]["n"] and rng.random() < 0.3) else perturb(rng, types[i]["e"], b[i])
        bn = cut
    else:
        b = [None if (t["n"] and rng.random() < null_p) else gen_value(rng, t["e"]) for t in types]
    has_ad = any(t["e"] in ("stradapt", "bytesadapt") for t in types)
    target = 2048
    if has_ad and rng.random() < 0.6:
        target = rng.choice([16, 32, 48, 64, 100, 128, 256, 512])
    c = {"types": types, "target": target, "a": a, "b": b}
    if len(b) != ncols:
        c["bn"] = len(b)
    return c


PLAIN_HIST = [e for e in ENCS if e not in ("stradapt", "bytesadapt")]


def gen_history_case(rng):
    """One reused builder: random interleavings of puts on random subsets of columns, Build / BuildPermissive / BuildPrefix(k) /
    BuildPrefixNoRecycle(k) / Recycle. All columns nullable, plain encodings."""
    ncols = rng.choice([2, 3, 3, 4, 5, 6])
    types = [{"e": rng.choice(PLAIN_HIST if rng.random() < 0.5 else ["int64", "int32", "string", "bytes", "uint8"]), "n": True} for _ in range(ncols)]
    hist = []
    for _ in range(rng.choice([2, 3, 4, 5])):
        cols = [i for i in range(ncols) if rng.random() < rng.choice([0.3, 0.6, 0.9])]
        rng.shuffle(cols)
        for i in cols:
            hist.append({"op": "put", "i": i, "c": gen_value(rng, types[i]["e"])})
            if rng.random() < 0.08:
                hist.append({"op": "put", "i": i, "c": gen_value(rng, types[i]["e"])})      # overwrite
        r = rng.random()
        if r < 0.35:
            hist.append({"op": rng.choice(["build", "permissive"])})
        elif r < 0.75:
            hist.append({"op": "prefix", "k": rng.randrange(0, ncols + 1) if rng.random() < 0.3 else rng.randrange(1, max(2, len(cols) + 1)) % (ncols + 1)})
        elif r < 0.88:
            hist.append({"op": "prefix_nr", "k": rng.randrange(0, ncols + 1)})
            if rng.random() < 0.5:
                hist.append({"op": "build"})
        else:
            hist.append({"op": "recycle"})
    hist.append({"op": "build"})
    a = [None if rng.random() < 0.4 else gen_value(rng, t["e"]) for t in types]
    b = [None if c is None else dict(c) for c in a]
    return {"types": types, "target": 2048, "a": a, "b": b, "hist": hist}


FIXED_HISTORY = {
    "types": [{"e": "int64", "n": True}, {"e": "int64", "n": True}, {"e": "string", "n": True}], "target": 2048,
    "a": [{"k": "z", "v": "7"}, None, None], "b": [{"k": "z", "v": "7"}, None, None],
    "hist": [{"op": "put", "i": 0, "c": {"k": "z", "v": "1"}}, {"op": "put", "i": 1, "c": {"k": "z", "v": "2"}},
             {"op": "put", "i": 2, "c": {"k": "b", "b": [115, 116, 97, 108, 101]}}, {"op": "prefix", "k": 1},
             {"op": "put", "i": 0, "c": {"k": "z", "v": "7"}}, {"op": "build"}]}


def history_tags(case):
    """Epochs = runs of puts between resets."""
    t = []
    prev_set, cur_set = set(), set()
    after_prefix_with_more = False
    for h in case.get("hist") or []:
        if h["op"] == "put":
            cur_set.add(h["i"])
            continue
        produces = h["op"] in ("build", "permissive", "prefix", "prefix_nr")
        if produces and after_prefix_with_more:
            t.append("buildprefix-then-reuse")
        if produces and prev_set - cur_set:
            t.append("reuse-with-unset-field")
        if h["op"] == "prefix_nr":
            continue
        after_prefix_with_more = h["op"] == "prefix" and any(i >= h["k"] for i in cur_set)
        prev_set, cur_set = (cur_set if cur_set else prev_set), set()
    return sorted(set(t))


def gen_f9_case(rng):
    """Small tuple with an adaptive value: supplied inline vs as (length, address)."""
    e = rng.choice(["stradapt", "bytesadapt"])
    n = rng.choice([1, 5, 19, 20, 21, 25, 30, 100])
    a = [{"k": "z", "v": str(rng.randrange(-5, 6))}, {"k": "ad", "b": _rand_bytes(rng, n, list(range(97, 123)))}]
    return {"types": [{"e": "int32", "n": False}, {"e": e, "n": True}], "target": 2048, "a": a, "b": [dict(a[0]), dict(a[1])]}


def gen_big_adaptive_case(rng):
    """Adaptive values around the default 2048 target (forced out of band by their own size or by neighbours)."""
    k = rng.choice([1, 2, 3])
    types = [{"e": "int32", "n": False}] + [{"e": rng.choice(["stradapt", "bytesadapt"]), "n": True} for _ in range(k)]
    def row():
        out = [{"k": "z", "v": str(rng.randrange(0, 3))}]
        for _ in range(k):
            n = rng.choice([2046, 2047, 2048, 2049, 1000, 1020, 1030, 700, 680, 2100, 10, rng.randrange(600, 2300)])
            out.append({"k": "ad", "b": [rng.choice([97, 98])] * n})
        return out
    a = row()
    b = row() if rng.random() < 0.6 else [dict(c) for c in a]
    return {"types": types, "target": 2048, "a": a, "b": b}


def gen_sweep_cases(bits, encs):
    """Every value of the small encodings, 64 columns per tuple, compared with the tuple shifted by one."""
    out = []
    for e in encs:
        if e in SIGNED:
            vals = [{"k": "z", "v": str(v)} for v in range(-(1 << (bits - 1)), 1 << (bits - 1))]
        elif e == "year":
            vals = [{"k": "n", "v": str(v)} for v in [0] + list(range(1901, 2156))]
        else:
            vals = [{"k": "n", "v": str(v)} for v in range(1 << bits)]
        for s in range(0, len(vals), 64):
            chunk = vals[s:s + 64]
            nxt = (vals[s + 1:s + 65] + vals[:1])[:len(chunk)]
            out.append({"types": [{"e": e, "n": False}] * len(chunk), "target": 2048, "a": chunk, "b": nxt, "sweep": bits})
    return out


FIXED_CASES = [
    {"types": [{"e": "int32", "n": True}], "target": 2048, "a": [None], "b": [None]},
    {"types": [{"e": "int32", "n": True}, {"e": "string", "n": True}], "target": 2048, "a": [None, None], "b": [{"k": "z", "v": "0"}, None]},
    {"types": [{"e": "string", "n": True}, {"e": "string", "n": True}, {"e": "string", "n": True}], "target": 2048,
     "a": [{"k": "b", "b": []}, None, {"k": "b", "b": [0]}], "b": [{"k": "b", "b": []}, None, None]},
    {"types": [{"e": "int64", "n": False}, {"e": "uint64", "n": False}], "target": 2048,
     "a": [{"k": "z", "v": str(-(1 << 63))}, {"k": "n", "v": str((1 << 64) - 1)}], "b": [{"k": "z", "v": str((1 << 63) - 1)}, {"k": "n", "v": "0"}]},
    {"types": [{"e": "int8", "n": False}], "target": 2048, "a": [{"k": "z", "v": "-1"}], "b": [{"k": "z", "v": "1"}]},
    {"types": [{"e": "bytes", "n": True}], "target": 2048, "a": [{"k": "b", "b": [1, 2]}], "b": [{"k": "b", "b": [1, 2, 0]}]},
    {"types": [{"e": "decimal", "n": True}], "target": 2048,
     "a": [{"k": "dec", "form": "fin", "neg": False, "coeff": "10", "exp": -1}], "b": [{"k": "dec", "form": "fin", "neg": False, "coeff": "1", "exp": 0}]},
]


def gen_cases(rng, tier):
    n = 420 if tier == "quick" else 30000
    cases = [dict(c) for c in FIXED_CASES]
    cases += gen_sweep_cases(8, ["int8", "uint8", "year"])
    if tier != "quick":
        cases += gen_sweep_cases(16, ["int16", "uint16", "enum"])
    else:
        sw = gen_sweep_cases(16, ["int16", "uint16", "enum"])
        cases += [sw[i] for i in sorted(rng.sample(range(len(sw)), 9))] + [sw[0], sw[511], sw[512], sw[1023], sw[1024], sw[-1]]
    cases.append(dict(FIXED_HISTORY))
    for _ in range(60 if tier == "quick" else 3000):
        cases.append(gen_history_case(rng))
    for _ in range(8 if tier == "quick" else 200):
        cases.append(gen_f9_case(rng))
    for _ in range(10 if tier == "quick" else 1500):
        cases.append(gen_big_adaptive_case(rng))
    while len(cases) < n:
        c = gen_tuple_case(rng)
        tot = lambda row: sum(size_of(t["e"], x) for t, x in zip(c["types"], row))
        if tot(c["a"]) < 60000 and tot(c["b"]) < 60000:
            cases.append(c)
    return cases


# ---------------------------------------------------------------------------
def cq_Z(s):
    v = int(s)
    return "(%d)%%Z" % v


def cq_sval(c):
    k = c["k"]
    if k == "z":
        return "(VZ %s)" % cq_Z(c["v"])
    if k == "n":
        return "(VN %d)" % int(c["v"])
    if k in ("b", "ad"):
        return "(VB %s)" % cq_bytes(c.get("b") or [])
    if k == "date":
        return "(VDate %d %d %d)" % (c.get("y", 0), c.get("m", 0), c.get("d", 0))
    if k == "dec":
        f = c.get("form", "fin")
        if f == "nan":
            return "(VDec DNaN)"
        if f == "inf":
            return "(VDec (DInf %s))" % cq_bool(c.get("neg", False))
        return "(VDec (DFin %s %d %s))" % (cq_bool(c.get("neg", False)), int(c.get("coeff", "0")), cq_Z(c.get("exp", 0)))
    raise ValueError(k)


def cq_cell(c, addr):
    if c is None:
        return "CNull"
    if c["k"] == "ad":
        return "(CAd %s %s)" % (cq_bytes(c.get("b") or []), cq_bytes(addr or []))
    return "(CVal %s)" % cq_sval(c)


def cq_field(f):
    return "None" if f is None else "(Some %s)" % cq_bytes(f)


def cq_hop(h):
    op = h["op"]
    if op == "put":
        return "(HPut %d%%nat %s)" % (h["i"], cq_sval(h["c"]))
    if op in ("build", "permissive"):
        return "HBuild"
    if op == "prefix":
        return "(HPrefix %d%%nat)" % h["k"]
    if op == "prefix_nr":
        return "(HPrefixNR %d%%nat)" % h["k"]
    return "HRecycle"


def coq_case(case, out):
    o = out.get("obs")
    types = cq_list("(%s, %s)" % (COQ_ENC[t["e"]], cq_bool(t["n"])) for t in case["types"])
    n = len(case["types"])
    if o is None:
        # panic / harness error: an observation no model agrees with and the oracle rejects
        inp = "{| i_types := %s; i_target := %d; i_a := %s; i_b := %s; i_hist := %s |}" % (
            types, case["target"], cq_list(cq_cell(c, [0] * 20) for c in case["a"]), cq_list(cq_cell(c, [0] * 20) for c in case["b"]),
            cq_list(cq_hop(h) for h in case.get("hist") or []))
        return ("(%s, {| o_a := [9]; o_same := false; o_a_out := [8]; o_b := [7]; o_count := 99999; o_fields := []; o_dec := []; "
                "o_cmp := 9%%Z; o_cmp_ba := 9%%Z; o_cmp_nofast := 9%%Z; o_hist := [[9]] |})") % inp
    aa = o["addrs_a"] or [None] * n
    ab = (o["addrs_b"] or []) + [None] * n
    inp = "{| i_types := %s; i_target := %d; i_a := %s; i_b := %s; i_hist := %s |}" % (
        types, case["target"], cq_list(cq_cell(c, aa[i]) for i, c in enumerate(case["a"])),
        cq_list(cq_cell(c, ab[i]) for i, c in enumerate(case["b"])), cq_list(cq_hop(h) for h in case.get("hist") or []))
    dec = cq_list("None" if d is None else "(Some %s)" % cq_sval(d) for d in o["dec"])
    obs = ("{| o_a := %s; o_same := %s; o_a_out := %s; o_b := %s; o_count := %d; o_fields := %s; o_dec := %s; "
           "o_cmp := %s; o_cmp_ba := %s; o_cmp_nofast := %s; o_hist := %s |}") % (
        cq_bytes(o["a"]), cq_bool(o["same"]), cq_bytes(o["a_out"]), cq_bytes(o["b"]), o["count"],
        cq_list(cq_field(f) for f in o["fields"]), dec, cq_Z(o["cmp"]), cq_Z(o["cmp_ba"]), cq_Z(o["cmp_nofast"]),
        cq_list(cq_bytes(t) for t in (o.get("hist") or [])))
    return "(%s, %s)" % (inp, obs)


def _is_outline(field):
    return field is not None and len(field) > 0 and field[0] != 0


def classify(case, out):
    o = out.get("obs")
    if o is None:
        return ["panic"]
    t = []
    a, types = case["a"], case["types"]
    if any(c is None for c in a):
        t.append("null-field")
    if a and a[-1] is None:
        t.append("trailing-null")
    if all(c is None for c in a):
        t.append("all-null")
    t.append({-1: "cmp-lt", 0: "cmp-eq", 1: "cmp-gt"}[o["cmp"]])
    if any(c is not None and c["k"] == "z" and int(c["v"]) < 0 for c in a):
        t.append("signed-negative")
    encs = {ty["e"] for ty in types}
    for k, names in (("string", ("string", "bytes")), ("decimal", ("decimal",)), ("date", ("date", "datetime", "time", "year")),
                     ("float", ("float32", "float64")), ("raw", ("hash128", "addr", "cell"))):
        if encs & set(names):
            t.append(k)
    if case.get("sweep") == 8:
        t.append("sweep8")
    if case.get("sweep") == 16:
        t.append("sweep16")
    if types and not types[0]["n"] and types[0]["e"] in FIXED:
        t.append("fast-access")
    ad_idx = [i for i, ty in enumerate(types) if ty["e"] in ("stradapt", "bytesadapt") and a[i] is not None]
    if ad_idx:
        outl = [_is_outline(o["fields"][i]) for i in ad_idx]
        t.append("adaptive-outline" if any(outl) else "adaptive-inline")
        if any(outl) and not all(outl):
            t.append("adaptive-mixed")
        tot = sum(size_of(ty["e"], c) for ty, c in zip(types, a))
        if tot > case["target"]:
            t.append("adaptive-normalised")
        if o["a"] != o["a_out"]:
            t.append("f9-outline-kept")
    ta = list(a)
    tb = list(case["b"])
    while ta and ta[-1] is None:
        ta.pop()
    while tb and tb[-1] is None:
        tb.pop()
    if ta == tb and len(a) != len(case["b"]):
        t.append("canonical-pair")
    if len(a) != len(case["b"]):
        t.append("prefix-descriptor")
    if not o["same"]:
        t.append("variant-differs")
    if case.get("hist"):
        t.append("history")
        t += history_tags(case)
    return t


def nontrivial(case, out):
    return any(c is not None for c in case["a"]) or any(c is not None for c in case["b"])


def match_known(finding, case, out):
    """F9: the only failing part of the property is 'adaptive value supplied as (length, address) to a tuple below the target keeps
    the out-of-band form'. Everything else in the observation must still be as the property demands."""
    if finding.get("key") != KNOWN_KEY_F9:
        return False
    o = out.get("obs")
    if o is None or not o["same"]:
        return False
    if o["a"] == o["a_out"]:
        return False
    types, a = case["types"], case["a"]
    if not any(ty["e"] in ("stradapt", "bytesadapt") and a[i] is not None for i, ty in enumerate(types)):
        return False
    # all-inline size within the target: BuildPermissive skips normalisation
    tot = sum(size_of(ty["e"], c) + (1 if ty["e"] == "year" and c is not None else 0) for ty, c in zip(types, a))
    return tot <= case["target"]


def shrink_candidates(case):
    n = len(case["types"])
    if case.get("hist"):
        h = case["hist"]
        for i in range(len(h) - 1):
            c = dict(case)
            c["hist"] = h[:i] + h[i + 1:]
            yield c
        return
    if case.get("sweep") or case.get("bn"):
        return
    for i in range(n):
        if n > 1:
            yield {"types": case["types"][:i] + case["types"][i + 1:], "target": case["target"],
                   "a": case["a"][:i] + case["a"][i + 1:], "b": case["b"][:i] + case["b"][i + 1:]}
    for row in ("a", "b"):
        for i in range(n):
            c = case[row][i]
            if c is not None and c["k"] in ("b", "ad") and case["types"][i]["e"] not in RAW and len(c["b"]) > 0:
                c2 = dict(c)
                c2["b"] = c["b"][:len(c["b"]) // 2]
                nc = dict(case)
                nc[row] = case[row][:i] + [c2] + case[row][i + 1:]
                yield nc
            if c is not None and case["types"][i]["n"]:
                nc = dict(case)
                nc[row] = case[row][:i] + [None] + case[row][i + 1:]
                yield nc


def neighbours(case, rng):
    out = []
    n = len(case["types"])
    for _ in range(60):
        nc = {"types": case["types"], "target": case["target"], "a": list(case["a"]), "b": list(case["b"])}
        row = rng.choice(["a", "b"])
        i = rng.randrange(len(nc[row]))
        if case.get("bn"):
            nc["bn"] = case["bn"]
        nc[row][i] = None if (case["types"][i]["n"] and rng.random() < 0.2) else perturb(rng, case["types"][i]["e"], nc[row][i])
        out.append(nc)
    return out


def search_cases(rng):
    out = []
    for e in ENCS:
        for _ in range(12):
            a = gen_value(rng, e)
            out.append({"types": [{"e": e, "n": True}], "target": 2048, "a": [a], "b": [perturb(rng, e, a)]})
            out.append({"types": [{"e": e, "n": True}, {"e": e, "n": True}], "target": 2048, "a": [a, None], "b": [a, gen_value(rng, e)]})
    return out
