"""C33 — Historical reads return the committed data."""
import os
from lib.vlib import cq_list, cq_bool

ID = "C33"
HARNESS_PKG = "c33"
HARNESS_RUNNER = "c33"
COQ_TARGETS = ["theories/C33/Corr.vo"]
COQ_CORR_MODULE = "C31.Model C33.Model C33.Spec C33.Corr"
COQ_CASE_TYPE = "C33.Corr.case"
COQ_CHECK = "C33.Corr.check_case"
COQ_MODEL_OBS = "(fun c => C33.Corr.model_obs (fst c))"
COQ_SHARD = 40
DESIGN_REF = "§5 C33"
TECHNIQUE = ("Coq proof over a model of commit histories, refs and the three historical access paths (AS OF, revision databases, dolt_history_t) "
             "+ differential correspondence through SQL against the state recorded at commit time, evaluated inside Coq")
LEVEL_TEXT = ("Proof (F/M, partial overall): on the model — histories as lists of commits (parents, schema, rows), branches with working sets, tags — "
              "AS OF by hash / branch / tag / HEAD with any ~n ^n suffix returns exactly the table of the resolved commit, columns and rows (as_of_spec and corollaries; "
              "every ancestor spec lands on an ancestor: walk_reachable); a revision database `db/rev` equals AS OF rev whenever the name denotes a commit "
              "(revision_db_eq_as_of: tags, hashes, ref~n, and clean branches — `db/branch` is the branch's working set); the history table visits exactly the commits "
              "reachable from HEAD, each once (visited_spec, visited_nodup), and filtered to one commit hash gives that commit's rows seen through the table's current "
              "schema — same primary keys, each current column carrying the committed cell of the column with that name, NULL if the commit had none — which is the "
              "committed rows verbatim when the schema did not change (history_filter_spec, hist_rows_at_spec, hist_rows_same_schema). "
              "PARTIAL: the plumbing (how a name reaches a root value, schema-at-commit handling, projection push-down) is not verified; it is tied to dolt "
              "differentially: random histories (branches, tags, merges, ADD/DROP COLUMN, dropped/re-created tables) are run through SQL, every commit's tables are "
              "recorded at commit time, and ~100 historical reads per case through all access paths are compared with the model and the oracle inside Coq.")
LEVEL_NOTE = ("Trusted: Coq kernel, Go harness + Python glue. The model answers reads from the history AS RECORDED by the harness at commit time (commit contents, "
              "parents, refs are inputs, not derived from the SQL script). Reading of the property for dolt_history_t: rows are shown through the CURRENT schema of the "
              "table (documented behaviour) — data of a column dropped since is not visible, and the table must exist in the working set; this is treated as projection, "
              "not as a violation; wrong or missing rows / cells of surviving columns would be. Not modelled: column type changes (history shows NULL with a warning), "
              "renamed tables and columns, AS OF timestamps, keyless tables, `db/HEAD`, ^0, non-integer data.")
THEOREMS = ["as_of_spec", "as_of_unresolved", "as_of_hash", "as_of_branch", "as_of_tag", "as_of_tilde", "walk_reachable", "revision_db_eq_as_of", "revision_db_spec",
            "visited_spec", "visited_nodup", "history_filter_spec", "hist_rows_at_spec", "hist_rows_same_schema", "oracle_model_obs"]
RULE = ("script of 8-26 operations on one session: CREATE/DROP TABLE t1,t2 (pk + some of c1..c4), REPLACE/DELETE rows (pk 1..4, values NULL/0..9), ADD/DROP COLUMN, "
        "dolt_commit -A, dolt_branch b1/b2, dolt_checkout, dolt_tag g1/g2 and tags named like a branch (b1/b2/main, pointing at another commit than the branch), "
        "REPLACE through `db/<branch>`.t, dolt_merge (--no-ff or default); 45% of the scripts end with uncommitted changes; "
        "then per table: AS OF / `db/rev` / history-filter for every commit hash, AS OF HEAD and every branch with 8 ancestor suffixes, `db/branch`, USE `db/rev`, "
        "tags, hash~n, and the unfiltered history table; non-trivial = at least 3 commits and some read returned rows; distinct by case JSON")
ASSUMPTIONS = ["column types never change; tables and columns are never renamed", "the recorded history lists parents before children (checked by the oracle)"]
REQUIRED_TAGS = ["tag-shadowed-by-branch", "write-through-revdb", "asof-hash", "asof-branch", "asof-tag", "asof-anc-ok", "anc-out-of-range", "caret2-ok", "revdb-branch-clean", "revdb-branch-dirty", "revdb-tag",
                 "revdb-hash", "revdb-hash-anc-refused", "revdb-ref-anc", "hist-projected", "hist-table-absent-in-commit", "hist-no-current-table",
                 "hist-unreachable-commit", "hist-all", "merge-commit", "table-absent-asof", "dirty-at-read", "schema-changed"]

# branch and tag names share one numbering: a tag may carry the name of a branch (different ref namespaces)
BR = {"main": 0, "b1": 1, "b2": 2, "g1": 11, "g2": 12}
TG = BR


def _vals(rng):
    return [rng.choice([None, 0, 1, 2, 3, 4, 5, 6, 7, 8, 9]) for _ in range(4)]


def gen_one(rng):
    ops = []
    cols = sorted(rng.sample([1, 2, 3, 4], rng.randint(1, 3)))
    ops.append({"k": "create", "t": 1, "cols": cols})
    for _ in range(rng.randint(1, 3)):
        ops.append({"k": "put", "t": 1, "pk": rng.randint(1, 4), "vals": _vals(rng)})
    ops.append({"k": "commit"})
    n = rng.randint(6, 22)
    branches = ["main"]
    if rng.random() < 0.6:
        ops.append({"k": "branch", "b": "b1"})
        branches.append("b1")
    while len(ops) < n + 4:
        x = rng.random()
        t = 1 if rng.random() < 0.8 else 2
        if x < 0.26:
            ops.append({"k": "put", "t": t, "pk": rng.randint(1, 4), "vals": _vals(rng)})
        elif x < 0.32:
            ops.append({"k": "del", "t": t, "pk": rng.randint(1, 4)})
        elif x < 0.39:
            ops.append({"k": "addcol", "t": t, "c": rng.randint(1, 4)})
        elif x < 0.46:
            ops.append({"k": "dropcol", "t": t, "c": rng.randint(1, 4)})
        elif x < 0.62:
            ops.append({"k": "commit"})
        elif x < 0.68:
            b = rng.choice(["b1", "b2"])
            ops.append({"k": "branch", "b": b})
            if b not in branches:
                branches.append(b)
        elif x < 0.75:
            ops.append({"k": "checkout", "b": rng.choice(branches)})
        elif x < 0.80:
            y = rng.random()
            if y < 0.45:
                ops.append({"k": "tag", "b": rng.choice(["g1", "g2"])})
            elif y < 0.75:
                # a tag with the name of a branch (existing or created later), left behind by a later commit on that branch
                b = rng.choice(["b1", "b2", "main"])
                ops.append({"k": "tag", "b": b})
                if b not in branches and rng.random() < 0.7:
                    ops += [{"k": "put", "t": 1, "pk": rng.randint(1, 4), "vals": _vals(rng)}, {"k": "commit"}, {"k": "branch", "b": b}]
                    branches.append(b)
                elif b in branches and rng.random() < 0.7:
                    ops += [{"k": "checkout", "b": b}, {"k": "put", "t": 1, "pk": rng.randint(1, 4), "vals": _vals(rng)}, {"k": "commit"}]
            else:
                # write through the revision database name
                ops.append({"k": "putrev", "b": rng.choice(branches), "t": 1, "pk": rng.randint(1, 6), "vals": _vals(rng)})
                if rng.random() < 0.5:
                    ops.append({"k": "commit"})
        elif x < 0.92:
            if len(branches) > 1 and rng.random() < 0.85:
                # diverge: a commit on another branch, one here, then (usually) merge it
                here = rng.choice(branches)
                there = rng.choice([b for b in branches if b != here])
                ops.append({"k": "commit"})
                ops.append({"k": "checkout", "b": there})
                if rng.random() < 0.3:
                    ops.append({"k": "addcol", "t": 1, "c": rng.randint(1, 4)})
                ops.append({"k": "put", "t": 1, "pk": rng.randint(1, 4), "vals": _vals(rng)})
                ops.append({"k": "commit"})
                ops.append({"k": "checkout", "b": here})
                ops.append({"k": "put", "t": 1, "pk": rng.randint(5, 6), "vals": _vals(rng)})
                ops.append({"k": "commit"})
                if rng.random() < 0.8:
                    ops.append({"k": rng.choice(["merge", "merge", "mergeff"]), "b": there})
            else:
                ops.append({"k": "commit"})
                ops.append({"k": rng.choice(["merge", "merge", "mergeff"]), "b": rng.choice(branches)})
        elif x < 0.97:
            ops.append({"k": "create", "t": 2, "cols": sorted(rng.sample([1, 2, 3], rng.randint(1, 2)))})
            ops.append({"k": "put", "t": 2, "pk": rng.randint(1, 3), "vals": _vals(rng)})
        else:
            ops.append({"k": "droptable", "t": t})
    if rng.random() < 0.55:
        ops.append({"k": "commit"})
    return {"ops": ops}


# a tag and a branch of the same name at different commits (tag first, branch later, never checked out), read and written through `db/<name>`
CASE_SAME_NAME = {"ops": [{"k": "create", "t": 1, "cols": [1]}, {"k": "put", "t": 1, "pk": 1, "vals": [10, 0, 0, 0]}, {"k": "commit"}, {"k": "tag", "b": "b1"},
                          {"k": "put", "t": 1, "pk": 2, "vals": [20, 0, 0, 0]}, {"k": "commit"}, {"k": "branch", "b": "b1"},
                          {"k": "put", "t": 1, "pk": 3, "vals": [30, 0, 0, 0]}, {"k": "commit"}]}
CASE_SAME_NAME_WRITE = {"ops": CASE_SAME_NAME["ops"] + [{"k": "putrev", "b": "b1", "t": 1, "pk": 4, "vals": [40, 0, 0, 0]}]}


def gen_cases(rng, tier):
    n = 48 if tier == "quick" else 1500
    return [CASE_SAME_NAME, CASE_SAME_NAME_WRITE] + [gen_one(rng) for _ in range(n)]


# ---- Coq printing ----
def _cell(c):
    return "None" if c is None else "Some %d" % c


def _row(cells):
    return cq_list(_cell(c) for c in cells)


def _state(tabs):
    sch = cq_list("(%d, %s)" % (tb["t"], cq_list(str(c) for c in tb["cols"])) for tb in tabs)
    data = cq_list("((%d, %d), %s)" % (tb["t"], r[0], _row(r[1:])) for tb in tabs for r in tb["rows"])
    return "{| d_schema := %s; d_data := %s |}" % (sch, data)


def _rev(q):
    b = {"hash": lambda: "BHash %d" % q["idx"], "branch": lambda: "BBranch %d" % BR.get(q["name"], 99),
         "tag": lambda: "BTag %d" % TG.get(q["name"], 99), "head": lambda: "BHead"}[q["base"]]()
    return "(%s, %s)" % (b, cq_list(("Caret %d" if a["caret"] else "Tilde %d") % a["n"] for a in q["anc"]))


def _query(q):
    k = q["kind"]
    if k == "asof":
        return "QAsOf %s %d" % (_rev(q), q["t"])
    if k == "revdb":
        return "QRevDb %s %d" % (_rev(q), q["t"])
    if k == "userevdb":
        return "QUseRevDb %s %d" % (_rev(q), q["t"])
    if k == "histat":
        return "QHistAt %d %d" % (q["idx"], q["t"])
    return "QHistAll %d" % q["t"]


def _ans(q):
    if q["err"]:
        return "ANoTable" if "table not found" in q.get("msg", "") else "ABadRev"
    cols = cq_list(str(c) for c in q["cols"])
    if q["kind"] == "histall":
        return "AHist %s %s" % (cols, cq_list("(%d, (%d, %s))" % (r[0], r[1], _row(r[2:])) for r in q["rows"]))
    return "ARows %s %s" % (cols, cq_list("(%d, %s)" % (r[0], _row(r[1:])) for r in q["rows"]))


EMPTY = "({| r_hist := []; r_branches := []; r_tags := []; r_cur := 0 |}, [QHistAll 1])"


def _good(out):
    o = out.get("obs")
    return o is not None and not out.get("err") and not out.get("panic") and o.get("queries")


def coq_case(case, out):
    if not _good(out):
        # harness failure: a case that fails both checks
        return "(%s, [])" % EMPTY
    o = out["obs"]
    hist = cq_list("{| k_parents := %s; k_state := %s |}" % (cq_list(str(p) for p in c["parents"]), _state(c["tabs"])) for c in o["commits"])
    brs = cq_list("(%d, (%d, %s))" % (BR.get(b["name"], 99), b["head"], _state(b["working"])) for b in o["branches"])
    tgs = cq_list("(%d, %d)" % (TG.get(g["name"], 99), g["at"]) for g in o["tags"])
    repo = "{| r_hist := %s; r_branches := %s; r_tags := %s; r_cur := %d |}" % (hist, brs, tgs, BR.get(o["cur"], 99))
    return "((%s, %s), %s)" % (repo, cq_list(_query(q) for q in o["queries"]), cq_list(_ans(q) for q in o["queries"]))


# ---- distribution ----
def _reach(commits, hd):
    seen, todo = set(), [hd]
    while todo:
        i = todo.pop()
        if i in seen:
            continue
        seen.add(i)
        todo.extend(commits[i]["parents"])
    return seen


def _tab(tabs, t):
    for tb in tabs:
        if tb["t"] == t:
            return tb
    return None


def classify(case, out):
    if not _good(out):
        return ["harness-error"]
    o = out["obs"]
    tags = set()
    commits = o["commits"]
    br = {b["name"]: b for b in o["branches"]}
    cur = br[o["cur"]]
    reach = _reach(commits, cur["head"])
    if any(len(c["parents"]) > 1 for c in commits):
        tags.add("merge-commit")
    if o["dirty"]:
        tags.add("dirty-at-read")
    schemas = set()
    for c in commits:
        tb = _tab(c["tabs"], 1)
        if tb:
            schemas.add(tuple(tb["cols"]))
    if len(schemas) > 1:
        tags.add("schema-changed")
    for g in o["tags"]:
        if g["name"] in br and br[g["name"]]["head"] != g["at"]:
            tags.add("tag-shadowed-by-branch")
            b = br[g["name"]]
            if b["working"] == commits[b["head"]]["tabs"]:
                tags.add("tag-shadowed-by-clean-branch")
    for op, st in zip(case["ops"], o["steps"]):
        if op["k"] == "putrev" and st == "":
            tags.add("write-through-revdb")
    for q in o["queries"]:
        k, base, anc, ok = q["kind"], q["base"], q["anc"], not q["err"]
        msg = q.get("msg", "")
        if k == "asof":
            if not anc and ok:
                tags.add({"hash": "asof-hash", "branch": "asof-branch", "tag": "asof-tag", "head": "asof-head"}[base])
            if anc and ok:
                tags.add("asof-anc-ok")
                if any(a["caret"] and a["n"] == 2 for a in anc):
                    tags.add("caret2-ok")
            if anc and not ok and "table not found" not in msg:
                tags.add("anc-out-of-range")
            if not ok and "table not found" in msg:
                tags.add("table-absent-asof")
        elif k in ("revdb", "userevdb"):
            if base == "branch" and not anc:
                b = br[q["name"]]
                clean = b["working"] == commits[b["head"]]["tabs"]
                tags.add("revdb-branch-clean" if clean else "revdb-branch-dirty")
            elif base == "tag" and not anc and ok:
                tags.add("revdb-tag")
            elif base == "hash" and not anc and ok:
                tags.add("revdb-hash")
            elif base == "hash" and anc and not ok:
                tags.add("revdb-hash-anc-refused")
            elif base in ("branch", "tag") and anc and ok:
                tags.add("revdb-ref-anc")
            if k == "userevdb" and ok:
                tags.add("use-revdb")
        elif k == "histat":
            if not ok:
                tags.add("hist-no-current-table")
            else:
                tb = _tab(commits[q["idx"]]["tabs"], q["t"])
                if tb is None:
                    tags.add("hist-table-absent-in-commit")
                elif tb["rows"] and tb["cols"] != q["cols"]:
                    tags.add("hist-projected")
                elif tb["rows"]:
                    tags.add("hist-same-schema")
                if q["idx"] not in reach and q["rows"]:
                    tags.add("hist-unreachable-commit")
        elif k == "histall" and ok and q["rows"]:
            tags.add("hist-all")
    tags.add("commits-%s" % ("<=3" if len(commits) <= 3 else "4-6" if len(commits) <= 6 else ">6"))
    return sorted(tags)


def nontrivial(case, out):
    if not _good(out):
        return False
    o = out["obs"]
    return len(o["commits"]) >= 3 and any(q["rows"] for q in o["queries"])


def match_known(finding, case, out):
    return False


def shrink_candidates(case):
    if os.environ.get("VERIF_NOSHRINK"):
        return
    ops = case["ops"]
    for i in range(len(ops) - 1, -1, -1):
        yield dict(case, ops=ops[:i] + ops[i + 1:])


def neighbours(case, rng):
    return [gen_one(rng) for _ in range(20)]
