"""C30 — The fast tree-level merge agrees with the row-level merge."""
from lib import vlib
from lib.vlib import cq_list

ID = "C30"
HARNESS_PKG = "c30"
HARNESS_RUNNER = "c30"
COQ_TARGETS = ["theories/C30/Corr.vo"]
COQ_CORR_MODULE = "C14.Model C14.Spec C14.Corr C30.Model C30.Spec C30.Corr"
COQ_CASE_TYPE = "C30.Corr.case"
COQ_CHECK = "C30.Corr.check_case"
COQ_MODEL_OBS = "(fun c => C30.Corr.model_obs (fst c))"
COQ_SHARD = 40
DESIGN_REF = "§5 C30"
TECHNIQUE = ("C14's theorems instantiated with the row merger as collision handler + SQL-level correspondence: one dolt_merge over three tables "
             "with identical histories, one fast-path eligible and two forced onto the row path by a CHECK / a secondary index")
LEVEL_TEXT = ("Proof (F/P): for every base/left/right the fast path's rows equal the row path's rows (rows_equal - no hypothesis left: the row "
              "merger is proved to resolve a divergent delete only to 'deleted', merge_row_delete) and the recorded conflicts are identical "
              "(conflicts_equal, for every handler), the conflict counter agrees (stats_conflicts_equal). The rows-and-conflicts part of the "
              "oracle holds on the model for every input, the whole oracle whenever MaybeShortCircuit applies or the row path counts nothing "
              "(oracle_on_model_partial). The full statement about statistics is refuted in the faithful model (stats_equal_refuted, "
              "oracle_on_model_refuted: the fast path never counts Adds/Deletes/Modifications) and on the real code (known finding). Relative to "
              "C14's range-patch theorem (the real patch streams are validated in C14's check); the row merger is modelled for two nullable int "
              "cells and identical schemas.")
LEVEL_NOTE = ("Trusted: Coq kernel, Go harness + Python glue, the SQL engine used to read rows and dolt_conflicts_* back. Which path runs is a function of "
              "the schema (canFastMergeProllyTrees); the harness relies on that reading of merge_prolly_rows.go and the statistics difference itself "
              "confirms that the two groups of tables took different paths.")
THEOREMS = ["rows_equal", "rows_spec", "merge_row_delete", "conflicts_equal", "stats_conflicts_equal", "stats_equal_partial", "stats_equal_refuted",
            "oracle_on_model_partial", "oracle_on_model_refuted"]
REFUTED = ["stats_equal_refuted", "oracle_on_model_refuted"]
RULE = ("row histories over pk int, a int NULL, b int NULL built per key from the change patterns (one-sided, convergent, cell-wise mergeable, "
        "same-cell conflict, delete/modify, add/add) incl. NULL cells; non-trivial = the right branch changes at least one row")
ASSUMPTIONS = ["cells are ints below 998 (row encoding of the model)"]
REQUIRED_TAGS = ["multi-chunk-table", "left-edit-on-last-key-of-right-changed-chunk", "both-edit-last-key-of-left-changed-chunk",
                 "right-edit-on-last-key-of-left-changed-chunk", "both-edit-last-key-of-right-changed-chunk", "both-paths", "short-circuit", "conflict", "cellwise-merged", "right-add", "right-delete", "right-modify", "no-right-change", "delete-modify", "add-add", "null-cell"]
HARNESS_TIMEOUT = 2400

KNOWN_KEY = "merge_prolly_rows:fast-path-stats-not-counted"


def cell(rng):
    return None if rng.random() < 0.12 else rng.randint(0, 50)


def gen_one(rng):
    n = rng.choice([1, 2, 4, 8, 15, 30])
    keys = sorted(rng.sample(range(1, 4 * n + 2), n))
    base, left, right = [], [], []
    quiet_right = rng.random() < 0.12
    for k in keys:
        a, b = cell(rng), cell(rng)
        a2 = (a or 0) + 100
        b2 = (b or 0) + 100
        row = {"pk": k, "a": a, "b": b}
        p = rng.random()
        if quiet_right and p >= 0.3:
            p = rng.choice([0.1, 0.31, 0.46, 0.41])
        if p < 0.30:
            base.append(row); left.append(row); right.append(row)
        elif p < 0.35:    # right add
            right.append(row)
        elif p < 0.40:    # left add
            left.append(row)
        elif p < 0.45:    # right modify
            base.append(row); left.append(row); right.append({"pk": k, "a": a2, "b": b})
        elif p < 0.50:    # left modify
            base.append(row); left.append({"pk": k, "a": a2, "b": b}); right.append(row)
        elif p < 0.55:    # right delete
            base.append(row); left.append(row)
        elif p < 0.60:    # left delete
            base.append(row); right.append(row)
        elif p < 0.68:    # cell-wise mergeable
            base.append(row); left.append({"pk": k, "a": a2, "b": b}); right.append({"pk": k, "a": a, "b": b2})
        elif p < 0.76:    # same cell, different values
            base.append(row); left.append({"pk": k, "a": a2, "b": b}); right.append({"pk": k, "a": a2 + 1, "b": b})
        elif p < 0.80:    # convergent modify
            base.append(row); left.append({"pk": k, "a": a2, "b": b2}); right.append({"pk": k, "a": a2, "b": b2})
        elif p < 0.84:    # convergent delete
            base.append(row)
        elif p < 0.88:    # left delete, right modify
            base.append(row); right.append({"pk": k, "a": a, "b": b2})
        elif p < 0.92:    # left modify, right delete
            base.append(row); left.append({"pk": k, "a": a2, "b": b})
        elif p < 0.96:    # add / add, different
            left.append(row); right.append({"pk": k, "a": a, "b": b2 if rng.random() < 0.5 else None})
        else:             # add / add, same
            left.append(row); right.append(row)
    return {"base": base, "left": left, "right": right}


DIRECTED = ["boundary1", "boundary2", "boundary1-m", "boundary2-m"]


def gen_directed(rng, scen, variant):
    """multi-chunk tables; the harness reads the leaf chunk boundaries of the base primary index and places one side's edit
    exactly on the last key of a chunk that the other side changed (elsewhere / on the same key), with that side's chunk
    boundaries shifted just before, so that one side is at row level while the other still holds a chunk-level patch"""
    return {"base": [], "left": [], "right": [], "scen": scen, "seed": rng.randrange(1 << 30), "n": rng.choice([1000, 1100, 1200]),
            "variant": variant}


def _src(case, out):
    o = (out or {}).get("obs") or {}
    return o.get("in") or case


def gen_cases(rng, tier):
    n = 60 if tier == "quick" else 1500
    cases = [gen_one(rng) for _ in range(n)]
    for sc in DIRECTED[:2]:
        for v in range(6 if tier == "quick" else 60):
            cases.append(gen_directed(rng, sc, v % 6))
    for sc in DIRECTED[2:]:
        for v in range(2 if tier == "quick" else 30):
            cases.append(gen_directed(rng, sc, rng.randrange(6)))
    return cases


def enc(a, b):
    return (0 if a is None else a + 1) * 1000 + (0 if b is None else b + 1)


def _rows(rs):
    return cq_list("(%d, %d)" % (r["pk"], enc(r["a"], r["b"])) for r in rs)


def _cellv(s):
    return None if s == "NULL" else int(s.split(":", 1)[1])


def _orow(pk, a, b):
    if _cellv(pk) is None:
        return "None"
    return "(Some %d)" % enc(_cellv(a), _cellv(b))


def _tobs(t):
    rows = cq_list("(%d, %d)" % (_cellv(r[0]), enc(_cellv(r[1]), _cellv(r[2]))) for r in t["rows"])
    conf = []
    for c in t["conflicts"]:
        pk = next(_cellv(x) for x in (c[0], c[3], c[6]) if _cellv(x) is not None)
        conf.append("(%d, (%s, %s, %s))" % (pk, _orow(c[0], c[1], c[2]), _orow(c[3], c[4], c[5]), _orow(c[6], c[7], c[8])))
    st = t.get("stats") or {"Adds": 9999, "Deletes": 9999, "Modifications": 9999, "DataConflicts": 9999}
    return "{| t_rows := %s; t_conf := %s; t_stats := (%d, %d, %d, %d) |}" % (
        rows, cq_list(conf), st["Adds"], st["Deletes"], st["Modifications"], st["DataConflicts"])


def coq_case(case, out):
    o = out.get("obs")
    src = _src(case, out)
    inp = "{| i_base := %s; i_left := %s; i_right := %s |}" % (_rows(src["base"]), _rows(src["left"]), _rows(src["right"]))
    if o is None or out.get("err") or o.get("merge_err"):
        bad = "{| t_rows := [(0,0);(0,0)]; t_conf := []; t_stats := (9,9,9,9) |}"
        bad2 = "{| t_rows := []; t_conf := []; t_stats := (8,8,8,8) |}"
        return "(%s, {| o_fast := %s; o_chk := %s; o_idx := %s |})" % (inp, bad, bad2, bad2)
    t = o["tables"]
    return "(%s, {| o_fast := %s; o_chk := %s; o_idx := %s |})" % (inp, _tobs(t["t"]), _tobs(t["t_chk"]), _tobs(t["t_idx"]))


def classify(case, out):
    o = out.get("obs")
    if o is None or out.get("err") or o.get("merge_err"):
        return ["error"]
    t = []
    if case.get("scen"):
        if o.get("note"):
            return ["directed-skipped:" + o["note"]]
        t.append("directed:" + case["scen"])
        t.append({"boundary1": "left-edit-on-last-key-of-right-changed-chunk", "boundary2": "both-edit-last-key-of-left-changed-chunk",
                  "boundary1-m": "right-edit-on-last-key-of-left-changed-chunk", "boundary2-m": "both-edit-last-key-of-right-changed-chunk"}[case["scen"]])
        if len(o.get("bounds") or []) >= 3:
            t.append("multi-chunk-table")
    case = _src(case, out)
    if case["left"] == case["base"] or case["right"] == case["base"] or case["left"] == case["right"]:
        t.append("short-circuit")      # MaybeShortCircuit: neither path runs
    else:
        t.append("both-paths")
    slow = o["tables"]["t_chk"]
    st = slow.get("stats") or {}
    if slow["conflicts"]:
        t.append("conflict")
    if st.get("Adds"):
        t.append("right-add")
    if st.get("Deletes"):
        t.append("right-delete")
    if st.get("Modifications"):
        t.append("right-modify")
    if not (st.get("Adds") or st.get("Deletes") or st.get("Modifications")):
        t.append("no-right-change")
    base = {r["pk"]: r for r in case["base"]}
    left = {r["pk"]: r for r in case["left"]}
    right = {r["pk"]: r for r in case["right"]}
    merged = {_cellv(r[0]): (_cellv(r[1]), _cellv(r[2])) for r in slow["rows"]}
    for k in set(left) & set(right):
        l, r = left[k], right[k]
        if k in base and l != base[k] and r != base[k] and l != r and k in merged and merged[k] not in ((l["a"], l["b"]), (r["a"], r["b"])):
            t.append("cellwise-merged")
        if k not in base and l != r:
            t.append("add-add")
    for k in base:
        if (k in left) != (k in right):
            other = left.get(k) or right.get(k)
            if other != base[k]:
                t.append("delete-modify")
    if any(r["a"] is None or r["b"] is None for r in case["base"] + case["left"] + case["right"]):
        t.append("null-cell")
    f, s1, s2 = o["tables"]["t"], o["tables"]["t_chk"], o["tables"]["t_idx"]
    if f["rows"] != s1["rows"] or f["conflicts"] != s1["conflicts"] or f["rows"] != s2["rows"] or f["conflicts"] != s2["conflicts"]:
        t.append("rows-or-conflicts-differ")
    if f.get("stats") != s1.get("stats"):
        t.append("stats-differ")
    return list(dict.fromkeys(t))


def nontrivial(case, out):
    case = _src(case, out)
    return case["right"] != case["base"] and case["left"] != case["base"] and case["left"] != case["right"]


def match_known(finding, case, out):
    """fast-path statistics: Adds/Deletes/Modifications stay 0; everything else agrees."""
    if finding.get("key") != KNOWN_KEY:
        return False
    o = out.get("obs")
    if not o or o.get("merge_err"):
        return False
    f, s1, s2 = o["tables"]["t"], o["tables"]["t_chk"], o["tables"]["t_idx"]
    if not (f["rows"] == s1["rows"] == s2["rows"] and f["conflicts"] == s1["conflicts"] == s2["conflicts"]):
        return False
    fs, ss, s2s = f.get("stats"), s1.get("stats"), s2.get("stats")
    if not fs or not ss or ss != s2s:
        return False
    return (fs["Adds"], fs["Deletes"], fs["Modifications"]) == (0, 0, 0) and fs["DataConflicts"] == ss["DataConflicts"] \
        and fs["ConstraintViolations"] == ss["ConstraintViolations"]


def shrink_candidates(case):
    if case.get("scen"):
        return
    ks = sorted({r["pk"] for nm in ("base", "left", "right") for r in case[nm]})
    for k in ks:
        c = {nm: [r for r in case[nm] if r["pk"] != k] for nm in ("base", "left", "right")}
        yield c


def neighbours(case, rng):
    return [gen_one(rng) for _ in range(15)]
