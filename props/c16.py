"""C16 — Large TEXT, BLOB and JSON values are stored faithfully."""
from lib.vlib import cq_bytes, cq_bool, cq_list

ID = "C16"
HARNESS_PKG = "c16"
HARNESS_RUNNER = "c16"
COQ_TARGETS = ["theories/C16/Corr.vo"]
COQ_CORR_MODULE = "Base.Str C15.Model C16.Model C16.Spec C16.Corr"
COQ_CASE_TYPE = "C16.Corr.case"
COQ_CHECK = "C16.Corr.check_case"
COQ_MODEL_OBS = "(fun c => C16.Corr.model_obs (fst c))"
COQ_SHARD = 60
HARNESS_TIMEOUT = 1500
DESIGN_REF = "§5 C16"
TECHNIQUE = ("Coq proof (SQLite4 varint header, adaptive representations, blob tree read-back for every split, comparison independent of "
             "the representation) + faithful model of the chunk differ + correspondence at the value-store API and through SQL")
LEVEL_TEXT = ("Proof (F/P): the length header round-trips for every N < 2^64 and its first byte separates the two representations; "
              "adaptive values round-trip; reading a blob tree back is the concatenation of its leaves = the input for every byte string, "
              "every split, chunk size, fan-out and number of levels; comparing adaptive values is proved to be the byte order of the "
              "contents, independent of the representation of either side, for ALL contents outside the class of the known finding "
              "(cmp_safe: two trees of the same height >= 1 are compared leaf by leaf — first_diff_chunks — and a side that is inline or a "
              "single leaf is compared with the first leaf of the other, which suffices when it cannot extend past it); the unrestricted "
              "statement is refuted (different heights / leaf root sharing the first chunk compare equal). oracle_on_model: the executable "
              "statement holds of the model on every well-formed input outside that class. Partial: SQL-level behaviour (ORDER BY, DISTINCT, "
              "GROUP BY, joins, unique keys, table hashes) rests on the correspondence.")
LEVEL_NOTE = ("Trusted: Coq kernel, translator (chunk size, address length), Go harness + Python glue. Modelled, not verified: the "
              "content-addressed store (oracle address -> content; equal addresses = equal contents), flatbuffer node serialisation, "
              "go-mysql-server's executor (ORDER BY / DISTINCT / GROUP BY / joins are checked against the declarative spec on generated "
              "values, not modelled), JSON documents (only the string member is compared), collations other than the binary one.")
THEOREMS = ["vi_roundtrip", "vi_first_byte_nonzero", "ad_roundtrip", "blob_roundtrip", "blob_tree_roundtrip", "blob_forest_single_root", "first_diff_chunks",
            "compare_adaptive_correct", "compare_adaptive_repr_indep_general", "compare_adaptive_same_height", "compare_adaptive_small",
            "compare_adaptive_repr_indep", "compare_adaptive_antisym", "content_compare_antisym", "content_compare_repr_indep", "oracle_on_model", "compare_adaptive_order_refuted"]
REFUTED = ["compare_adaptive_order_refuted"]
RULE = ("store-level cases: pairs of byte strings given by (length, pattern, point mutations) with lengths around 0/20/21, the inline "
        "threshold (target-1, target), the chunk size (3999..4001, 8000), the fan-out boundary (799999..800001) and random ones, the second "
        "string equal / a prefix / differing in the first, a middle or the last chunk; SQL cases: 3-6 values per case over the same length "
        "classes up to a few hundred kB in TEXT, BLOB and JSON columns, with duplicates and shared prefixes; non-trivial = non-empty value")
ASSUMPTIONS = ["TEXT/JSON contents are ASCII letters and digits (binary collation = byte order)",
               "SQL tables use the default 2048-byte tuple length target; the out-of-band table forces the value out with 8 neighbours of min(len-1, 1000) bytes"]
REQUIRED_TAGS = ["cmp", "collated-mixed-width-across-chunk", "json-inline-left-oob-right", "collated-all-four-forms", "api", "sql", "inline-possible", "out-only", "single-chunk", "multi-chunk", "height-differs", "equal-values", "prefix-pair",
                 "sql-text", "sql-blob", "sql-json", "sql-forced-out", "sql-large", "sql-threshold", "sql-multi-chunk"]

KEY_CMP = "nodeStore.CompareAdaptive:first-chunk-only"
KEY_CNT = "count-distinct:out-of-band-unhashable"
KEY_JOIN = "join-eq:blob-inline-vs-out-of-band"

K = 4000
FAN = 200
ALNUM = [ord(c) for c in "abcdefghijklmnopqrstuvwxyz0123456789"]


def expand(s):
    out = [s["pat"][i % len(s["pat"])] if s["pat"] else 0 for i in range(s["n"])]
    for p, b in s["muts"]:
        if p < len(out):
            out[p] = b
    return out


def top_level(n):
    if n <= K:
        return 0
    d, h = n // K, 0
    while d > 0:
        d //= FAN
        h += 1
    return h


def gen_len(rng, big):
    cls = [0, 1, 19, 20, 21, 22, 100, 240, 241, 2046, 2047, 2048, 2049, 2287, 2288, 3999, 4000, 4001, 7999, 8000, 8001, 12000, 67823, 67824]
    if big:
        cls += [100000, 300000, 799999, 800000, 800001]
    return rng.choice(cls + [rng.randrange(0, 5000), rng.randrange(0, 300)])


def gen_spec(rng, n, alphabet):
    pat = [rng.choice(alphabet) for _ in range(rng.choice([1, 1, 2, 3, 7]))]
    muts = []
    for _ in range(rng.choice([0, 0, 1, 2])):
        if n > 0:
            muts.append([rng.choice([0, n - 1, n // 2, min(n - 1, K - 1), min(n - 1, K), rng.randrange(n)]), rng.choice(alphabet)])
    return {"n": n, "pat": pat, "muts": muts}


def related(rng, x, alphabet, big):
    """A second string related to x: equal, a prefix / extension, or differing at one position."""
    r = rng.random()
    y = {"n": x["n"], "pat": list(x["pat"]), "muts": [list(m) for m in x["muts"]]}
    if r < 0.15:
        return y
    if r < 0.5:
        y["n"] = max(0, rng.choice([x["n"] + 1, x["n"] - 1, x["n"] + K, x["n"] * 2, gen_len(rng, big), x["n"] + rng.randrange(1, 50)]))
        return y
    if r < 0.85 and x["n"] > 0:
        pos = rng.choice([0, x["n"] - 1, x["n"] // 2, min(x["n"] - 1, K), min(x["n"] - 1, K - 1), rng.randrange(x["n"])])
        cur = expand({"n": pos + 1, "pat": x["pat"], "muts": [m for m in x["muts"] if m[0] <= pos]})[pos]
        y["muts"].append([pos, rng.choice([b for b in alphabet if b != cur])])
        return y
    return gen_spec(rng, gen_len(rng, big), alphabet)


def gen_api(rng, big):
    alphabet = rng.choice([ALNUM, list(range(256)), [0, 1, 255]])
    x = gen_spec(rng, gen_len(rng, big), alphabet)
    y = related(rng, x, alphabet, big)
    return {"kind": "api", "target": rng.choice([2048, 2048, 2048, 64, 300, 5000]), "x": x, "y": y}


def gen_sql(rng, big):
    ty = rng.choice([0, 1, 2])
    alphabet = ALNUM if ty != 1 else rng.choice([ALNUM, list(range(256))])
    n = rng.choice([3, 4, 5])
    base = gen_spec(rng, rng.choice([30, 300, 1030, 2046, 2047, 2048, 3000, 3999, 4000, 4001, 8000] + ([100000, 250000] if big else [])), alphabet)
    vals = [base]
    while len(vals) < n:
        v = related(rng, rng.choice(vals), alphabet, False)
        if ty == 2 and v["n"] > 60000:
            continue
        if v["n"] <= 300000:
            vals.append(v)
    rng.shuffle(vals)
    return {"kind": "sql", "sqlty": ty, "vals": vals, "prefix": rng.choice([1, 10, 64, 100, 768]), "target": 2048}


FIXED = [
    {"kind": "api", "target": 2048, "x": {"n": 4000, "pat": [97], "muts": []}, "y": {"n": 4001, "pat": [97], "muts": []}},
    {"kind": "api", "target": 2048, "x": {"n": 4000, "pat": [97], "muts": []}, "y": {"n": 8000, "pat": [97], "muts": []}},
    {"kind": "api", "target": 2048, "x": {"n": 2047, "pat": [97], "muts": []}, "y": {"n": 2047, "pat": [97], "muts": []}},
    {"kind": "api", "target": 2048, "x": {"n": 2047, "pat": [97], "muts": []}, "y": {"n": 2048, "pat": [97], "muts": []}},
    {"kind": "api", "target": 2048, "x": {"n": 0, "pat": [97], "muts": []}, "y": {"n": 1, "pat": [0], "muts": []}},
    {"kind": "api", "target": 2048, "x": {"n": 8001, "pat": [97, 98], "muts": [[8000, 99]]}, "y": {"n": 8001, "pat": [97, 98], "muts": [[8000, 100]]}},
    {"kind": "sql", "sqlty": 0, "prefix": 64, "target": 2048, "vals": [{"n": 1500, "pat": [97], "muts": []}, {"n": 1500, "pat": [97], "muts": []},
                                                                        {"n": 1501, "pat": [97], "muts": []}, {"n": 1500, "pat": [97], "muts": [[1499, 98]]}]},
]


def threshold_sql_cases(rng):
    """Sizes just below / at / above the inline threshold (2047 = largest inline value), the chunk size and a multi-chunk value,
    in each column type, each value with an equal twin and a twin differing in its last byte."""
    out = []
    for ty in (0, 1, 2):
        for sizes in ([2046, 2047, 2048], [3999, 4000, 4001], [2047, 8000, 12001]):
            vals = []
            for n in sizes:
                pat = [rng.choice(ALNUM) for _ in range(3)]
                vals.append({"n": n, "pat": pat, "muts": []})
            vals.append({"n": sizes[1], "pat": list(vals[1]["pat"]), "muts": []})
            vals.append({"n": sizes[1], "pat": list(vals[1]["pat"]), "muts": [[sizes[1] - 1, 45 if ty == 1 else 48]]})
            # same prefix, one byte longer / shorter than the middle value (prefix pairs across the boundary)
            vals.append({"n": sizes[1] + 1, "pat": list(vals[1]["pat"]), "muts": []})
            out.append({"kind": "sql", "sqlty": ty, "vals": vals, "prefix": rng.choice([10, 64, 768]), "target": 2048, "threshold": True})
    return out


# letters that utf8mb4_0900_ai_ci treats as equal, in encodings of different width
EQUIV = {"e": ["e", "\u00e9", "E", "\u00e8", "\u00ea"], "a": ["a", "\u00e4", "A", "\u00e0"], "o": ["o", "\u00f6", "O"],
         "u": ["u", "\u00fc"], "n": ["n", "\u00f1"], "c": ["c", "\u00e7"]}
PLAIN_LETTERS = "bdfghjklmpqrstvwxyz"


def gen_cmp_collated(rng, big=True):
    """Two long strings equal under the accent/case-insensitive collation (or differing late) whose collation-equal runes have
    different UTF-8 widths before the first chunk boundary, so the two rune streams drift off the 4000-byte chunk alignment."""
    nchars = rng.choice([4100, 4500, 8100, 8300, 12100] if big else [30, 300, 2040, 3990])
    skeleton = [rng.choice("eaouncbdfgst") for _ in range(nchars)]
    def render(p_wide, head_wide):
        out = []
        for i, ch in enumerate(skeleton):
            if ch in EQUIV:
                pw = head_wide if i < 200 else p_wide
                v = EQUIV[ch]
                out.append(rng.choice(v[1:]) if rng.random() < pw else v[0])
            else:
                out.append(ch)
        return out
    x = render(rng.choice([0.0, 0.1, 0.5]), rng.choice([0.8, 0.5, 0.0]))
    y = render(rng.choice([0.0, 0.1, 0.5]), rng.choice([0.0, 0.3, 0.9]))
    mode = rng.random()
    if mode < 0.45:
        pass                                             # collation-equal
    elif mode < 0.75:
        i = rng.choice([nchars - 1, nchars - 2, nchars // 2, rng.randrange(nchars // 2, nchars)])
        y[i] = rng.choice([c for c in PLAIN_LETTERS if c != skeleton[i]])   # differ late
    elif mode < 0.9:
        y = y + render(0.3, 0.3)[:rng.choice([1, 5, 100])]                    # x is a collation-prefix of y
    else:
        y = y[:rng.randrange(nchars // 2, nchars)]
    xb, yb = "".join(x).encode("utf-8"), "".join(y).encode("utf-8")
    ck = 0 if rng.random() < 0.8 else 1
    target = rng.choice([2048, 2048, 60000, 60000, 5000])
    return {"kind": "cmp", "ckind": ck, "target": target, "xs": xb.hex(), "ys": yb.hex(), "sql": ck == 0 and rng.random() < 0.25}


def gen_cmp_json(rng):
    def doc(n, a):
        s = "".join(rng.choice("abcdefghij") for _ in range(3)) * (n // 3)
        return '{"a": %d, "s": "%s", "l": [1, {"b": null}, true]}' % (a, s)
    nx = rng.choice([10, 100, 900, 1900, 1990])
    ny = rng.choice([2100, 2500, 3000, 3800, 1000, 100, 4500])
    x = doc(nx, rng.randrange(3))
    y = doc(ny, rng.randrange(3)) if rng.random() < 0.85 else x
    if rng.random() < 0.3:
        x, y = y, x
    return {"kind": "cmp", "ckind": 2, "target": rng.choice([2048, 2048, 2048, 5000]), "xs": x.encode().hex(), "ys": y.encode().hex(), "sql": False}


FIXED_CMP = [
    # e vs é before the first chunk boundary, equal under ai_ci, > 4000 bytes, default target (both out of band)
    {"kind": "cmp", "ckind": 0, "target": 2048, "xs": ("\u00e9" * 50 + "e" * 4100).encode("utf-8").hex(), "ys": ("e" * 4150).encode("utf-8").hex(), "sql": True},
    {"kind": "cmp", "ckind": 0, "target": 60000, "xs": ("\u00e9" * 50 + "e" * 8100).encode("utf-8").hex(), "ys": ("e" * 8150).encode("utf-8").hex(), "sql": False},
    # inline document on the left, out-of-band single-chunk document on the right, differing
    {"kind": "cmp", "ckind": 2, "target": 2048, "xs": b'{"a": 1, "s": "x"}'.hex(), "ys": ('{"a": 2, "s": "%s"}' % ("y" * 2500)).encode().hex(), "sql": False},
    {"kind": "cmp", "ckind": 2, "target": 2048, "xs": b'{"a": 3, "s": "x"}'.hex(), "ys": ('{"a": 2, "s": "%s"}' % ("y" * 2500)).encode().hex(), "sql": False},
]


def gen_cases(rng, tier):
    quick = tier == "quick"
    cases = [dict(c) for c in FIXED]
    cases += [dict(c) for c in FIXED_CMP]
    for _ in range(30 if quick else 1500):
        cases.append(gen_cmp_collated(rng, big=rng.random() < 0.8))
    for _ in range(30 if quick else 1500):
        cases.append(gen_cmp_json(rng))
    cases += threshold_sql_cases(rng)
    n_api, n_sql = (110, 14) if quick else (4000, 400)
    if quick:
        cases.append({"kind": "api", "target": 2048, "x": {"n": 799999, "pat": [97], "muts": []}, "y": {"n": 800000, "pat": [97], "muts": []}})
        cases.append({"kind": "sql", "sqlty": 1, "prefix": 100, "target": 2048,
                      "vals": [{"n": 250000, "pat": [1, 2, 3], "muts": []}, {"n": 250000, "pat": [1, 2, 3], "muts": [[249999, 9]]}, {"n": 2047, "pat": [1, 2, 3], "muts": []}]})
    for _ in range(n_api):
        cases.append(gen_api(rng, not quick and rng.random() < 0.1))
    for _ in range(n_sql):
        cases.append(gen_sql(rng, not quick and rng.random() < 0.2))
    return cases


# ---------------------------------------------------------------------------
def cq_spec(s):
    return "{| cs_n := %d%%nat; cs_pat := %s; cs_muts := %s |}" % (s["n"], cq_bytes(s["pat"]), cq_list("(%d%%nat, %d)" % (p, b) for p, b in s["muts"]))


def cq_nlist(l):
    return "[" + "; ".join(str(int(x)) for x in l) + "]"


def _cq_oz(l):
    return cq_list("None" if c is None else "(Some (%d)%%Z)" % c for c in l)


def coq_case(case, out):
    o = out.get("obs") or {}
    if case["kind"] == "cmp":
        c = o.get("cmp")
        if c is None:
            return "(ICmp {| c_kind := %d; c_inline_x := false; c_inline_y := false; c_ref_xy := 0%%Z; c_ref_yx := 0%%Z; c_sql := false |}, OBad)" % case["ckind"]
        sqlran = bool(case.get("sql")) and case["ckind"] != 2
        inp = "ICmp {| c_kind := %d; c_inline_x := %s; c_inline_y := %s; c_ref_xy := (%d)%%Z; c_ref_yx := (%d)%%Z; c_sql := %s |}" % (
            case["ckind"], cq_bool(c["inline_x"]), cq_bool(c["inline_y"]), c["ref_xy"], c["ref_yx"], cq_bool(sqlran))
        obs = "OCmp {| oc_xy := %s; oc_yx := %s; oc_tuple_xy := (%d)%%Z; oc_tuple_yx := (%d)%%Z; oc_sql_distinct := %d; oc_sql_first := %d |}" % (
            _cq_oz(c["xy"]), _cq_oz(c["yx"]), c["tuple_xy"], c["tuple_yx"], c["sql_distinct"], c["sql_first"])
        return "(%s, %s)" % (inp, obs)
    if case["kind"] == "api":
        a = o.get("api")
        if a is None:
            inp = "IApi {| a_target := %d; a_x := %s; a_y := %s; a_addr_x := [1]; a_addr_y := [2] |}" % (case["target"], cq_spec(case["x"]), cq_spec(case["y"]))
            return "(%s, OBad)" % inp
        inp = "IApi {| a_target := %d; a_x := %s; a_y := %s; a_addr_x := %s; a_addr_y := %s |}" % (
            case["target"], cq_spec(case["x"]), cq_spec(case["y"]), cq_bytes(a["addr_x"]), cq_bytes(a["addr_y"]))
        cmp = cq_list("None" if c is None else "(Some (%d)%%Z)" % c for c in a["cmp"])
        obs = ("OApi {| ao_read_ok := %s; ao_height := %d; ao_leaves := %d; ao_last_leaf := %d; ao_out := %s; ao_built := %s; ao_cmp := %s |}" % (
            cq_bool(a["read_ok"]), a["height"], a["leaves"], a["last_leaf"], cq_bytes(a["out"]), cq_bytes(a["built"] or []), cmp))
        return "(%s, %s)" % (inp, obs)
    s = o.get("sql")
    inp = "ISql {| s_kind := %d; s_vals := %s; s_prefix := %d%%nat |}" % (case["sqlty"], cq_list(cq_spec(v) for v in case["vals"]), case["prefix"])
    if s is None:
        return "(%s, OBad)" % inp
    obs = ("OSql {| so_read_in := %s; so_read_out := %s; so_read_sel := %s; so_read_upd := %s; so_order_in := %s; so_order_out := %s; "
           "so_order_sel := %s; so_order_upd := %s; so_distinct_sel := %d; so_distinct_upd := %d; so_json_full := %s; "
           "so_distinct_in := %d; so_distinct_out := %d; "
           "so_groups_in := %d; so_groups_out := %d; so_join := %d; so_unique := %s; so_hash_same := %s |}") % (
        cq_bool(s["read_in"]), cq_bool(s["read_out"]), cq_bool(s["read_sel"]), cq_bool(s["read_upd"]),
        cq_nlist(s["order_in"] or []), cq_nlist(s["order_out"] or []), cq_nlist(s["order_sel"] or []), cq_nlist(s["order_upd"] or []),
        s["distinct_sel"], s["distinct_upd"], cq_bool(s["json_full"]), s["distinct_in"], s["distinct_out"],
        s["groups_in"], s["groups_out"], s["join"], cq_list(cq_bool(b) for b in (s["unique"] or [])), cq_bool(s["hash_same"]))
    return "(%s, %s)" % (inp, obs)


def _wide_before(b, limit=4000):
    """number of multi-byte runes starting before byte offset `limit`"""
    return sum(1 for i, x in enumerate(b[:limit]) if x >= 0xC0)


def classify(case, out):
    o = out.get("obs") or {}
    t = []
    if case["kind"] == "cmp":
        c = o.get("cmp")
        if c is None:
            return ["panic"]
        t.append("cmp")
        t.append(["cmp-collated-ci", "cmp-collated-bin", "cmp-json"][case["ckind"]])
        t.append({-1: "ref-lt", 0: "ref-eq", 1: "ref-gt"}[c["ref_xy"]])
        if case["ckind"] == 0:
            xb, yb = bytes.fromhex(case["xs"]), bytes.fromhex(case["ys"])
            if max(len(xb), len(yb)) > 4000 and _wide_before(xb) != _wide_before(yb):
                t.append("collated-mixed-width-across-chunk")
                if max(len(xb), len(yb)) > 8000:
                    t.append("collated-over-two-chunks")
            if c["inline_x"] and c["inline_y"] and min(len(xb), len(yb)) > 4000:
                t.append("collated-all-four-forms")
            if case.get("sql"):
                t.append("cmp-sql")
        if case["ckind"] == 2:
            if c["inline_x"] and not c["inline_y"] and c["len_y"] <= 4000 and c["ref_xy"] != 0:
                t.append("json-inline-left-oob-right")
            if c["len_y"] > 4000 or c["len_x"] > 4000:
                t.append("json-multi-chunk")
        if c.get("notes"):
            t.append("cmp-notes")
        return t
    if case["kind"] == "api":
        a = o.get("api")
        if a is None:
            return ["panic"]
        t.append("api")
        nx, ny = case["x"]["n"], case["y"]["n"]
        t.append("inline-possible" if nx + 1 <= case["target"] else "out-only")
        t.append("single-chunk" if nx <= K else "multi-chunk")
        if top_level(nx) != top_level(ny) or (nx <= K) != (ny <= K):
            t.append("height-differs")
        x, y = (expand(case["x"]), expand(case["y"])) if max(nx, ny) <= 20000 else (None, None)
        if x is not None:
            if x == y:
                t.append("equal-values")
            elif x[:len(y)] == y or y[:len(x)] == x:
                t.append("prefix-pair")
        if a["height"] >= 2:
            t.append("height2")
        return t
    s = o.get("sql")
    if s is None:
        return ["panic"]
    t.append("sql")
    t.append(["sql-text", "sql-blob", "sql-json"][case["sqlty"]])
    ns = [v["n"] for v in case["vals"]]
    if any(300 <= n <= 2047 for n in ns):
        t.append("sql-forced-out")
    if any(n > 2047 for n in ns):
        t.append("sql-out-only")
    if any(n >= 100000 for n in ns):
        t.append("sql-large")
    if case.get("threshold"):
        t.append("sql-threshold")
    if any(n > 4000 for n in ns):
        t.append("sql-multi-chunk")
    if s.get("notes"):
        t.append("sql-notes")
    return t


def nontrivial(case, out):
    return case["kind"] in ("sql", "cmp") or case["x"]["n"] > 0 or case["y"]["n"] > 0


def _sgn(a, b):
    return (a > b) - (a < b)


def match_known(finding, case, out):
    o = out.get("obs") or {}
    if case["kind"] == "cmp":
        return False
    if finding.get("key") == KEY_CMP and case["kind"] == "api":
        a = o.get("api")
        if a is None or not a["read_ok"]:
            return False
        # the only wrong answers are comparisons between sides whose first leaf chunks are compared alone:
        # trees of different height (or a leaf root / inline side against a taller tree) that agree on min(first chunks)
        nx, ny = case["x"]["n"], case["y"]["n"]
        if max(nx, ny) <= K:
            return False
        x, y = expand(case["x"]), expand(case["y"])
        want = _sgn(x, y)
        same_shape = top_level(nx) == top_level(ny) and nx > K and ny > K
        nwrong = 0
        for idx, (lin, rin) in enumerate([(True, True), (True, False), (False, True), (False, False)]):
            c = a["cmp"][idx]
            if c is None or c == want:
                continue
            nwrong += 1
            if idx == 0 or (idx == 3 and same_shape):
                return False            # both inline, or two aligned trees: must be right
            l1 = x if lin else x[:K]    # an inline side is yielded whole, a tree side yields its first leaf
            r1 = y if rin else y[:K]
            if c != _sgn(l1, r1):
                return False
        return nwrong > 0
    if finding.get("key") == KEY_CNT and case["kind"] == "sql":
        s = o.get("sql")
        if s is None:
            return False
        notes = " ".join(s.get("notes") or [])
        # every note must be a failed COUNT(DISTINCT ...): "count distinct unable to hash value" for out-of-band values,
        # "string ... is too large" for values beyond 64 kB
        if not (s.get("notes") and all(n.startswith("select count(distinct") for n in s["notes"])):
            return False
        # everything else must be as the property demands: only the COUNT(DISTINCT) answers are missing
        vals = [bytes(expand(v)) for v in case["vals"]]
        d = len(set(vals))
        bad_in = s["distinct_in"] == 999999
        bad_out = s["distinct_out"] == 999999
        ok_rest = (s["read_in"] and s["read_out"] and s["read_sel"] and s["read_upd"] and s["json_full"] and s["hash_same"]
                   and s["order_in"] == s["order_sel"] == s["order_upd"] and s["distinct_sel"] == d and s["distinct_upd"] == d
                   and s["groups_in"] == d and s["groups_out"] == d
                   and (bad_in or s["distinct_in"] == d) and (bad_out or s["distinct_out"] == d) and s["order_in"] == s["order_out"]
                   and s["join"] == sum(1 for a in vals for b in vals if a == b))
        return ok_rest and (bad_in or bad_out)
    if finding.get("key") == KEY_JOIN and case["kind"] == "sql" and case["sqlty"] == 1:
        s = o.get("sql")
        if s is None or s.get("notes"):
            return False
        vals = [bytes(expand(v)) for v in case["vals"]]
        d = len(set(vals))
        want = sum(1 for a in vals for b in vals if a == b)
        # pairs whose left side (tin) is inline while the right side (tout) was forced out of band
        mixed = sum(1 for a in vals for b in vals if a == b and 22 <= len(a) <= 2047)
        ok_rest = (s["read_in"] and s["read_out"] and s["read_sel"] and s["read_upd"] and s["json_full"] and s["hash_same"]
                   and s["order_in"] == s["order_sel"] == s["order_upd"] and s["distinct_sel"] == d and s["distinct_upd"] == d
                   and s["groups_in"] == d and s["groups_out"] == d
                   and s["distinct_in"] == d and s["distinct_out"] == d and s["order_in"] == s["order_out"])
        return ok_rest and mixed > 0 and want - mixed <= s["join"] < want
    return False


def shrink_candidates(case):
    if case["kind"] == "cmp":
        return
    if case["kind"] == "sql":
        vs = case["vals"]
        for i in range(len(vs)):
            if len(vs) > 2:
                c = dict(case)
                c["vals"] = vs[:i] + vs[i + 1:]
                yield c
        return
    for k in ("x", "y"):
        s = case[k]
        if s["muts"]:
            c = dict(case)
            c[k] = {"n": s["n"], "pat": s["pat"], "muts": s["muts"][:-1]}
            yield c
        if len(s["pat"]) > 1:
            c = dict(case)
            c[k] = {"n": s["n"], "pat": s["pat"][:1], "muts": s["muts"]}
            yield c


def neighbours(case, rng):
    out = []
    if case["kind"] != "api":
        return out
    for d in (-1, 1, K, -K):
        for k in ("x", "y"):
            c = dict(case)
            s = dict(case[k])
            s["n"] = max(0, s["n"] + d)
            c[k] = s
            out.append(c)
    return out


def search_cases(rng):
    out = []
    for n in (19, 20, 21, 2046, 2047, 2048, 3999, 4000, 4001, 8000, 8001):
        for m in (n, n + 1):
            out.append({"kind": "api", "target": 2048, "x": {"n": n, "pat": [97], "muts": []}, "y": {"n": m, "pat": [97], "muts": []}})
    return out
