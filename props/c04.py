"""C04 — The journal index file never changes what the database contains."""
from lib import vlib
from lib.vlib import cq_bytes, cq_bool, cq_list
from props.c03 import gen_ops as c03_gen_ops, crc32c, be32, be64, wf_payload, rbytes, _res

ID = "C04"
HARNESS_PKG = "c04"
HARNESS_RUNNER = "c04"
COQ_TARGETS = ["theories/C04/Corr.vo"]
COQ_CORR_MODULE = "Base.Str C03.Model C03.Spec C03.Corr C04.Model C04.Spec C04.Corr"
COQ_CASE_TYPE = "C04.Corr.case"
COQ_CHECK = "C04.Corr.check_case"
COQ_MODEL_OBS = "(fun c => C04.Corr.model_obs (fst c))"
COQ_SHARD = 10
COQ_EVAL_TIMEOUT = 1500
DESIGN_REF = "§5 C04, §6 F1"
TECHNIQUE = ("Coq model of journal.idx (processIndexRecords, the batch validations of readJournalIndex, corruptIndexRecovery, truncation, "
             "re-indexing at bootstrap) on top of the C03 journal model + regenerated tags/sizes + in-Coq correspondence against the real "
             "openJournalWriter/bootstrapJournal opened with and without each index variant")
LEVEL_TEXT = ("Proof (F/M): index_transparent_refuted — the faithful model does NOT satisfy the property: a concrete journal and an index whose two "
              "(offset,length) ranges are swapped pass every validation (the batch CRC covers the 16-byte address prefixes only) and the store reads "
              "the other chunk (F1, reproduced on the real code). index_transparent_partial — for every journal and every index image that is absent, "
              "malformed, has no complete batch or fails any validation (checksum, contiguity, root at batchEnd), the view with the index equals the "
              "view without it, and a read-only open leaves both files untouched. index_transparent_validated — for every validated index (genuine or "
              "stale) over a journal whose indexed prefix is a run of intact records with a root record at the indexed offset, IF the lookups the index "
              "supplied are the journal's own ranges (the hypothesis F1 shows cannot be dropped) and the 16-byte prefix tells the looked-up address "
              "apart from the journal's chunk addresses, the view equals the index-free one (rests on C03 scan_app); own_lookups_agree derives that "
              "hypothesis from 'the lookups are, in order, those of the chunk records', which C03 index_stream_covers proves of the writer. The model is tied to the code by opening every variant with the "
              "real code twice (with / without the index) and comparing both observations and the index file left behind inside Coq.")
LEVEL_NOTE = ("Trusted: Coq kernel, translator (tags and sizes), Go harness + Python glue. Modelled, not verified: os.File/bufio (ReadFull/ReadByte "
              "as list operations), the errgroup/channel plumbing of readJournalIndex (sequential in the model), Go maps (association lists, "
              "later-wins). Not proved: the byte-level round trip of the writer's index stream through parse_index (so that a genuine index FILE "
              "satisfies the hypothesis of index_transparent_validated unconditionally); it is tied by the correspondence (C03 compares the model's "
              "index bytes with the real journal.idx, C04 compares every open).")
THEOREMS = ["index_transparent_refuted (F1)", "index_transparent_partial", "index_transparent_validated", "own_lookups_agree", "ro_open_pure_index", "genuine_index_transparent", "c04_consts_pinned"]
REFUTED = ["index_transparent (for every index image): refuted by index_transparent_refuted"]
RULE = ("a case = op history through the real writer with maxNovel 1..3 (several index batches) x variants (journal intact or truncated; index genuine, "
        "missing, empty, truncated at every record boundary +-1 and sampled offsets, stale prefix, xor in every field of lookup and meta records, "
        "ranges of two lookups swapped, length/offset overwritten, random bytes; read-only and read-write); non-trivial = the genuine index has "
        "at least one complete batch; distinct by op list and variant list")
ASSUMPTIONS = ["distinct chunk addresses differ in their first 16 bytes",
               "random garbage does not validate under CRC-32C (probability 2^-32)"]
REQUIRED_TAGS = ["meta-end-forged", "genuine-validated", "missing", "empty", "trunc-benign-eof", "stale-validated", "recovery", "malformed-tag",
                 "xor-lookup-tag", "xor-lookup-addr", "xor-lookup-off", "xor-lookup-len",
                 "xor-meta-tag", "xor-meta-start", "xor-meta-end", "xor-meta-cksum", "xor-meta-root",
                 "swap-accepted", "setlen", "setoff", "random-bytes", "journal-truncated", "ro-open", "rw-open", "multi-batch",
                 "rw-index-truncated", "view-differs"]

LFLDS = [("tag", 1), ("addr", 16), ("off", 8), ("len", 4)]
MFLDS = [("tag", 1), ("start", 8), ("end", 8), ("cksum", 4), ("root", 20)]


def gen_ops(rng, nchunks=None, dense=False):
    """small histories: raw chunks with distinct addresses, commits often enough for several batches"""
    ops = []
    if dense:
        # two or three chunks before every commit: with maxNovel = 1 every commit flushes a batch of >= 2 lookups
        for _ in range(rng.randint(2, 3)):
            for _ in range(rng.randint(2, 3)):
                ops.append({"k": "raw", "addr": rbytes(rng, 20), "full": wf_payload(rng, rng.choice([1, 3, 6, 9, 14]))})
            ops.append({"k": "commit", "root": rbytes(rng, 20), "ts": rng.choice([1, 7, 1700000000])})
        return ops
    n = nchunks or rng.randint(4, 8)
    for i in range(n):
        if rng.random() < 0.25:
            ops.append({"k": "chunk", "data": rbytes(rng, rng.choice([1, 5, 12, 30]))})
        else:
            full = wf_payload(rng, rng.choice([1, 3, 6, 9, 14, 25]))
            if rng.random() < 0.08:
                full[-1] ^= 0x55
            ops.append({"k": "raw", "addr": rbytes(rng, 20), "full": full})
        if rng.random() < 0.55:
            ops.append({"k": "commit", "root": rbytes(rng, 20), "ts": rng.choice([1, 7, 1700000000])})
    ops.append({"k": "commit", "root": rbytes(rng, 20), "ts": 9})
    if rng.random() < 0.3:
        ops.append({"k": "raw", "addr": rbytes(rng, 20), "full": wf_payload(rng, 5)})
    return ops


def J0():
    return {"k": "none"}


def V(ik, ro=False, j=None, **kw):
    d = {"j": j or J0(), "ik": ik, "ro": ro}
    d.update(kw)
    return d


def harmless_vars(rng, nops, nrecs_guess, ntrunc=4):
    """variants on which the property is expected to hold"""
    vs = [V("genuine"), V("genuine", ro=True), V("missing"), V("missing", ro=True), V("bytes", bytes=[]), V("bytes", bytes=[], ro=True)]
    tr = []
    for r in range(0, nrecs_guess + 1):
        for d in (-1, 0, 1):
            tr.append(V("trunc", rec=r, d=d, ro=rng.random() < 0.3))
    for _ in range(6):
        tr.append(V("trunc", rec=rng.randrange(nrecs_guess + 1), d=rng.choice([2, 5, 16, 17, 20, 25, 28, 29, 33, 40]), ro=rng.random() < 0.3))
    rng.shuffle(tr)
    vs += tr[:ntrunc]
    for b in range(1, 3):
        vs.append(V("stale", n=b, ro=rng.random() < 0.3))
    for name, ln in LFLDS:
        if name in ("off", "len"):
            continue
        vs.append(V("xor", kind="lookup", n=rng.randrange(8), fld=name, b=rng.randrange(ln), x=rng.choice([1, 2, 0x80, 0xFF]), ro=rng.random() < 0.3))
    for name, ln in MFLDS:
        vs.append(V("xor", kind="meta", n=rng.randrange(4), fld=name, b=rng.randrange(ln), x=rng.choice([1, 2, 0x80, 0xFF]), ro=rng.random() < 0.3))
    vs.append(V("bytes", bytes=rbytes(rng, rng.choice([1, 29, 41, 70])), ro=rng.random() < 0.3))
    vs.append(V("bytes", bytes=[rng.choice([0, 1])] + rbytes(rng, rng.choice([28, 40, 69])), ro=rng.random() < 0.3))
    vs.append(V("bytes", bytes=[0] + rbytes(rng, 28) + [1] + rbytes(rng, 40) + [7], ro=False))
    # index paired with a truncated journal
    for _ in range(2):
        vs.append(V("genuine", ro=rng.random() < 0.3, j={"k": "trunc", "rec": rng.randint(0, nops), "d": rng.choice([0, 0, -1, 1, 7, 39, 40])}))
    vs.append(V("stale", n=1, j={"k": "trunc", "rec": rng.randint(0, nops), "d": 0}))
    return vs


def sim_index(ops, maxnovel):
    """the journal.idx the writer produces for a history of raw chunk records and commits (record sizes are known
    for raw payloads): returns (index bytes, [(position of the meta record in the index, offset of its root record)],
    offsets of all root records)"""
    idx, metas, roots = [], [], []
    off, indexed, novel, batch = 0, 0, set(), []
    for o in ops:
        if o["k"] == "raw":
            idx += [0] + o["addr"][:16] + be64(off + 28) + be32(len(o["full"]))
            batch += o["addr"][:16]
            novel.add(tuple(o["addr"]))
            off += 32 + len(o["full"])
        elif o["k"] == "commit":
            roots.append(off)
            if len(novel) > maxnovel:
                metas.append((len(idx), off))
                idx += [1] + be64(indexed) + be64(off) + be32(crc32c(batch)) + list(o["root"])
                indexed, novel, batch = off, set(), []
            off += 40
        else:
            raise ValueError("sim_index: raw and commit ops only")
    return idx, metas, roots


def forged_end_case(rng):
    """An index that is genuine except that the |end| of its last complete batch names a LATER root record of the same
    journal (which holds a different root): the chunk records between the true and the forged end are then neither in
    the index nor replayed.  readJournalIndex must reject it because the meta's root is not the root at that offset."""
    mk = lambda n: {"k": "raw", "addr": rbytes(rng, 20), "full": wf_payload(rng, n)}
    ops = [mk(6), mk(9), {"k": "commit", "root": rbytes(rng, 20), "ts": 3},       # novel 2 > 1: batch 1
           mk(5), mk(7), {"k": "commit", "root": rbytes(rng, 20), "ts": 4},       # batch 2
           mk(8), {"k": "commit", "root": rbytes(rng, 20), "ts": 5}]              # novel 1: no meta, but a later root record
    idx, metas, roots = sim_index(ops, 1)
    vs = [V("bytes", bytes=list(idx)), V("bytes", bytes=list(idx), ro=True)]
    for n, (pos, end) in enumerate(metas):
        for later in [r for r in roots if r > end]:
            forged = list(idx)
            forged[pos + 9:pos + 17] = be64(later)
            vs.append(V("bytes", bytes=forged[:pos + 41], forged=True, ro=rng.random() < 0.5))   # nothing after the forged batch
            if n == len(metas) - 1:
                vs.append(V("bytes", bytes=forged, forged=True))                               # trailing lookups kept
                vs.append(V("bytes", bytes=forged, forged=True, ro=True))
    return {"bufsz": 0, "maxnovel": 1, "ops": ops, "vars": vs, "simindex": list(idx)}


def gen_cases(rng, tier):
    cases = [forged_end_case(rng)]
    n = 22 if tier == "quick" else 300
    cap = 24 if tier == "quick" else 80
    for i in range(n):
        kind = i % 6
        ops = gen_ops(rng, dense=(kind == 0))
        vs = harmless_vars(rng, len(ops), 8, ntrunc=(4 if tier == "quick" else 40))
        if kind in (0, 1):
            rng.shuffle(vs)
        if kind == 0:
            # F1 witness class: ranges of two lookups of one batch swapped, everything else genuine
            vs = vs[:cap - 3] + [V("swap", batch=rng.randrange(4), i=rng.randrange(8), jj=rng.randrange(8), ro=rng.random() < 0.4) for _ in range(3)]
        elif kind == 1 and i < 12:
            # other damage to the unprotected range fields
            vs = vs[:cap - 6] + [
                V("setlen", n=rng.randrange(8), v=rng.choice([0, 2, 3, 4, 5, 1000, 70000])),
                V("setoff", n=rng.randrange(8), v=rng.choice([0, 1, 5000, 1 << 20, (1 << 63) + (1 << 40)]), ro=rng.random() < 0.4),
                V("xor", kind="lookup", n=rng.randrange(8), fld="off", b=rng.choice([0, 6, 7]), x=rng.choice([1, 4, 0x80])),
                V("xor", kind="lookup", n=rng.randrange(8), fld="len", b=rng.choice([2, 3]), x=rng.choice([1, 2, 7]), ro=rng.random() < 0.4),
                V("swapx", i=rng.randrange(8), jj=rng.randrange(8)),
                V("setlen", n=rng.randrange(8), v=2, ro=True)]
        cases.append({"bufsz": 0, "maxnovel": 1 if kind == 0 else rng.choice([1, 1, 2, 3]), "ops": ops, "vars": vs[:cap + 6]})
    return cases


# ---------------------------------------------------------------- Coq terms
def _jmut(v):
    if v["jk"] == "trunc":
        return "(MTrunc %d)" % v["jat"]
    if v["jk"] == "xor":
        return "(MXor %d %s)" % (v["jat"], cq_bytes(v["jbytes"]))
    return "(MXor 0 [])"


def _ivar(v):
    if v["missing"]:
        return "IMissing"
    if v["explicit"]:
        return "(IBytes %s)" % cq_bytes(v["bytes"])
    return "(IEdit %d %s)" % (v["keep"], cq_list("(%d, %s)" % (p["pos"], cq_bytes(p["bytes"])) for p in v["patches"]))


BAD = ("({| i_poly := 0; i_bufsz := 0; i_maxnovel := 0; i_journal := []; i_index := []; i_known := []; i_vars := [] |}, "
       "{| o_lookup_sz := 0; o_meta_sz := 0; o_fn_off := 9; o_fn_err := true; o_fn_batches := []; o_fn_crcok := false; o_vars := [] |})")


def coq_case(case, out):
    o = out.get("obs")
    if o is None or out.get("err") or out.get("panic"):
        return BAD
    vs = ["{| v_jmut := %s; v_idx := %s; v_ro := %s |}" % (_jmut(v), _ivar(v), cq_bool(v["ro"])) for v in o["vars"]]
    inp = ("{| i_poly := %d; i_bufsz := %d; i_maxnovel := %d; i_journal := %s; i_index := %s; i_known := %s; i_vars := %s |}" % (
        o["poly"], o["bufsz"], case.get("maxnovel") or 16384, cq_bytes(o["journal"]), cq_bytes(o["index"]),
        cq_list(cq_bytes(k) for k in o["known"]), cq_list(vs)))
    vo = ["{| vo_idxlen := %d; vo_idxsum := %d; vo_with := %s; vo_without := %s; vo_idx_exists := %s; vo_idx_after := %s; vo_idx_same := %s |}" % (
        v["idxlen"], v["idxsum"], _res(v["with"]), _res(v["without"]), cq_bool(v["idxexists"]), cq_bytes(v["idxafter"]), cq_bool(v["idxsame"]))
        for v in o["vars"]]
    obs = ("{| o_lookup_sz := %d; o_meta_sz := %d; o_fn_off := %d; o_fn_err := %s; o_fn_batches := %s; o_fn_crcok := %s; o_vars := %s |}" % (
        o["lookupsz"], o["metasz"], o["fnoff"], cq_bool(o["fnerr"]), cq_list(str(x) for x in o["fnbatch"]), cq_bool(o["fncrcok"]), cq_list(vo)))
    return "(%s, %s)" % (inp, obs)


# ---------------------------------------------------------------- classification
def _view(r):
    return (r["err"], r["root"], [(l["f"], l["o"], l["l"], l["st"], l["sum"]) for l in r["looks"]])


def view_differs(v):
    """what the store shows with the index differs from the index-free open: error class, root, per-address lookups and
    reads, and (when both opens succeed) the chunk count"""
    w, wo = v["with"], v["without"]
    return _view(w) != _view(wo) or (w["err"] == 0 and wo["err"] == 0 and w["count"] != wo["count"])


def _image(o, v):
    if v["missing"]:
        return None
    if v["explicit"]:
        return list(v["bytes"])
    img = list(o["index"][:v["keep"]])
    for p in v["patches"]:
        for i, b in enumerate(p["bytes"]):
            if p["pos"] + i < len(img):
                img[p["pos"] + i] = b
    return img


def _parse(img):
    """(complete batches, malformed?)"""
    p, nb, cur = 0, 0, 0
    while p < len(img):
        if img[p] == 0:
            if p + 29 > len(img):
                return nb, False, p
            p += 29
        elif img[p] == 1:
            if p + 41 > len(img):
                return nb, False, p
            p += 41
            nb += 1
        else:
            return nb, True, p
    return nb, False, p


def classify(case, out):
    o = out.get("obs")
    if o is None:
        return ["panic" if out.get("panic") else "harness-error"]
    t = set()
    if case.get("simindex") is not None and case["simindex"] == o["index"] and any(v.get("forged") for v in case["vars"]):
        t.add("meta-end-forged")          # the plugin's own reconstruction of journal.idx is the real file: the forgeries are what they claim
    if len(o["fnbatch"]) >= 2:
        t.add("multi-batch")
    for v in o["vars"]:
        t.add("ro-open" if v["ro"] else "rw-open")
        img = _image(o, v)
        w = v["with"]
        # the with-index open used the index iff it did not restart from 0: visible through the index file kept (rw) ...
        nb, mal, _ = _parse(img) if img is not None else (0, False, 0)
        kept = (not v["ro"]) and img is not None and nb > 0 and v["idxafter"][:41] == img[:41] and len(v["idxafter"]) >= 41
        if v["jk"] != "none":
            t.add("journal-truncated")
        if v["missing"]:
            t.add("missing")
        elif img == []:
            t.add("empty")
        if mal:
            t.add("malformed-tag")
        ik = v["ik"]
        if ik == "genuine" and v["jk"] == "none" and nb > 0 and (kept or v["ro"]):
            t.add("genuine-validated")
        if ik == "trunc" and not mal and img is not None and len(img) < len(o["index"]):
            t.add("trunc-benign-eof")
        if ik == "stale" and 0 < nb < len(o["fnbatch"]) and (kept or v["ro"]):
            t.add("stale-validated")
        if ik == "xor":
            t.add("xor-" + v["fld"])
        if ik in ("swap", "swapx") and w["err"] == 0 and view_differs(v):
            t.add("swap-accepted")
        if ik in ("setlen", "setoff"):
            t.add(ik)
        if v["explicit"] and len(v["bytes"]) > 0:
            t.add("random-bytes")
        if (not v["ro"]) and img is not None and nb > 0 and w["err"] == 0 and not kept:
            t.add("recovery")
        if (not v["ro"]) and img is not None and kept and len(img) > 0 and v["idxafter"][:len(img)] != img:
            t.add("rw-index-truncated")
        if view_differs(v):
            t.add("view-differs")
    return sorted(t)


def nontrivial(case, out):
    o = out.get("obs")
    return bool(o) and len(o["fnbatch"]) > 0 and len(o["vars"]) > 0


def shrink_candidates(case):
    vs = case["vars"]
    if len(vs) > 1:
        h = len(vs) // 2
        yield dict(case, vars=vs[:h])
        yield dict(case, vars=vs[h:])
        for i in range(min(len(vs), 30)):
            yield dict(case, vars=vs[:i] + vs[i + 1:])


def neighbours(case, rng):
    return [dict(case, vars=harmless_vars(rng, len(case["ops"]), 8)[:20]) for _ in range(4)]


def search_cases(rng):
    out = [forged_end_case(rng) for _ in range(2)]
    for _ in range(3):
        ops = gen_ops(rng)
        out.append({"bufsz": 0, "maxnovel": 1, "ops": ops, "vars": harmless_vars(rng, len(ops), 8)[:24]})
    return out


def _range_spans(idx):
    """[start, end) of the 12-byte (offset,length) field of every lookup record of an index image"""
    spans, q = [], 0
    while q < len(idx):
        if idx[q] == 0 and q + 29 <= len(idx):
            spans.append((q + 17, q + 29))
            q += 29
        elif idx[q] == 1 and q + 41 <= len(idx):
            q += 41
        else:
            break
    return spans


def match_known(finding, case, out):
    """Two witness classes of the same defect (the batch checksum of journal.idx covers the address prefixes only), each
    matched exactly: every variant of the case on which the with-index and without-index views differ must be of the class,
    read-only opens must be pure, and at least one such variant must exist.
    journal.idx:lookup-ranges-swapped-within-batch — journal intact, genuine index, only the (offset,length) fields of two
      lookups of one batch swapped: passes every validation and the store serves the other chunk's range;
    journal.idx:lookup-range-not-covered-by-checksum — journal intact, genuine index, every changed byte lies inside the
      (offset,length) field of a lookup record (bit flips, overwritten length/offset, swaps across batches)."""
    key = finding.get("key")
    if key not in ("journal.idx:lookup-ranges-swapped-within-batch", "journal.idx:lookup-range-not-covered-by-checksum"):
        return False
    o = out.get("obs")
    if o is None:
        return False
    spans = _range_spans(o["index"])
    hit = False
    for v in o["vars"]:
        w, wo = v["with"], v["without"]
        pure = True
        if v["ro"]:
            pure = w["unchanged"] and wo["unchanged"] and v["idxsame"] and not wo["idxexists"]
        if not pure:
            return False
        if not view_differs(v):
            continue
        base = (v["jk"] == "none" and not v["missing"] and not v["explicit"] and v["keep"] == len(o["index"])
                and w["err"] == 0 and wo["err"] == 0)
        same_batch_swap = base and v["ik"] == "swap" and v["samebatch"] and len(v["patches"]) == 2
        if key == "journal.idx:lookup-ranges-swapped-within-batch":
            if not same_batch_swap:
                return False
        else:
            inside = all(any(a <= p["pos"] and p["pos"] + len(p["bytes"]) <= b for a, b in spans) for p in v["patches"])
            if not (base and v["patches"] and inside and not same_batch_swap):
                return False
        hit = True
    return hit
