"""C06 — Table files and archives round-trip any chunk set."""
from lib import vlib
from lib.vlib import cq_bytes, cq_bool, cq_list
from props import c01 as _c01

ID = "C06"
HARNESS_PKG = "c06"
HARNESS_RUNNER = "c06"
COQ_TARGETS = ["theories/C06/Corr.vo"]
COQ_CORR_MODULE = "Base.Str C01.Model C01.Spec C06.Model C06.Spec C06.Corr"
COQ_CASE_TYPE = "C06.Corr.case"
COQ_CHECK = "C06.Corr.check_case"
COQ_MODEL_OBS = "(fun c => C06.Corr.model_obs (fst c))"
COQ_SHARD = 120
DESIGN_REF = "§5 C06"
TECHNIQUE = ("Coq proof: archive interpolation search = lower bound on every sorted list (termination included); read-back of every chunk / "
             "absent addresses / counts / sizes for the written table; in-Coq byte-for-byte comparison of model-written files with files "
             "written by tableWriter and planTableConjoin, and of all reads (tables, conjoined tables, archives)")
LEVEL_TEXT = ("Proof (F/M for table files and conjoin; index level for archives): table_roundtrip from the BYTES - for every record list with distinct "
              "addresses (equal 8-byte prefixes allowed) that fits the format and every prefix-sorted outcome of the index sort, the written file "
              "re-opens (parse_write_table), reports count and summed uncompressed size, returns every chunk byte for byte (CRC checked), reports "
              "every absent address absent, iterateAllChunks yields exactly the stored chunks; conjoin_is_table / conjoin_roundtrip - "
              "planTableConjoin's output is byte for byte the table file of the concatenated record lists and serves exactly the union of its "
              "inputs (duplicate addresses kept and served from one of the equal copies), counts and sizes add up; archives: prollyBinSearch "
              "terminates and returns lower_bound on every sorted list, findIndex returns the position of h iff stored (find_index_spec), the "
              "index block (span ends / prefixes / chunk refs / suffixes) decodes to the reader's arrays (archive_index_roundtrip) and the "
              "decoded lookup returns exactly the staged chunk reference (archive_roundtrip). NOT proved: archive data section, dictionaries, "
              "metadata, footer - real archives (also > maxSamples chunks: dictionary path) are compared with the chunk set by correspondence.")
LEVEL_NOTE = ("Trusted: Coq kernel, translator, Go harness + Python glue. Parameters: checksum function, snappy (opaque payload bytes supplied by the "
              "implementation). Modelled, not verified: archive byte-span data section, zstd dictionaries, metadata/footer of archives (archive "
              "reads are checked by correspondence only; the proved part is the index search), streaming sinks, read batching.")
THEOREMS = ["table_roundtrip", "parse_write_table", "conjoin_is_table", "conjoin_roundtrip", "conjoin_default_valid", "prolly_bin_search_spec",
            "find_index_spec", "find_index_present", "archive_index_roundtrip", "archive_roundtrip"]
RULE = ("chunk sets of 1-22 chunks over colliding address pools (see C01), payloads of 1-24 bytes (random, constant, repeated); conjoins of 2-4 tables "
        "with and without duplicated chunks; probes = present, absent inside present prefix runs, adjacent prefixes, sorted by prefix with 20% "
        "already-found flags; sorted uint64 slices (dense runs, duplicates, 0 and 2^64-1) with targets at, next to and between elements; "
        "distinct by content")
ASSUMPTIONS = ["an address determines the chunk bytes (duplicates across conjoined tables carry equal bytes)",
               "archives over maxSamples=1000 chunks (dictionary build + zstd staging) are compared as chunk sets inside the harness (counts fed to Coq), not byte-modelled"]
REQUIRED_TAGS = ["table", "conjoin", "conjoin-duplicates", "archive", "archive-over-maxsamples", "search", "prefix-collision", "absent-in-run", "early-exit", "pre-found",
                 "search-dup", "search-absent", "search-beyond"]


def _ps(a):
    return int.from_bytes(bytes(a[:8]), "big"), int.from_bytes(bytes(a[8:20]), "big")


def cq_addr(a):
    return "(%d, %d)" % _ps(a)


def _probes(rng, pool, present):
    pr = [list(x[0]) for x in pool]
    rng.shuffle(pr)
    pr = pr[:rng.randint(1, min(len(pr), 10))]
    # stable sort by prefix only (what toHasRecords/toGetRecords do)
    pr.sort(key=lambda a: bytes(a[:8]))
    pre = [rng.random() < 0.2 for _ in pr]
    return pr, pre


def gen_table(rng, ntables):
    pool = _c01.make_pool(rng)
    while len(pool) < 3:
        pool = _c01.make_pool(rng)
    tables = []
    for _ in range(ntables):
        k = rng.randint(1, min(len(pool), 12 if ntables > 1 else 22))
        sel = rng.sample(pool, k)
        tables.append([{"a": list(a), "d": list(d)} for a, d, _ in sel])
    if ntables > 1 and rng.random() < 0.5:
        # force a duplicate across two tables
        c = rng.choice(tables[0])
        if all(x["a"] != c["a"] for x in tables[1]):
            tables[1].append(dict(c))
    present = {tuple(c["a"]) for t in tables for c in t}
    probes, pre = _probes(rng, pool, present)
    return {"kind": "table", "tables": tables, "probes": probes, "pre": pre}


def gen_search(rng):
    n = rng.choice([0, 1, 2, 3, 5, 8, 13, 20, 40])
    mode = rng.random()
    M = 2 ** 64 - 1
    if mode < 0.3:
        base = rng.randrange(M)
        s = [min(M, base + rng.randrange(0, 6)) for _ in range(n)]      # dense, many duplicates
    elif mode < 0.5:
        s = [rng.choice([0, 1, M, M - 1, 2 ** 63, rng.randrange(M)]) for _ in range(n)]
    else:
        s = [rng.randrange(M) for _ in range(n)]
    s.sort()
    k = rng.random()
    if s and k < 0.4:
        t = rng.choice(s)
    elif s and k < 0.7:
        t = max(0, min(M, rng.choice(s) + rng.choice([-1, 1])))
    elif k < 0.8:
        t = rng.choice([0, M])
    else:
        t = rng.randrange(M)
    return {"kind": "search", "s": s, "t": t}


def gen_archive(rng):
    pool = _c01.make_pool(rng)
    k = rng.randint(1, min(len(pool), 20))
    sel = rng.sample(pool, k)
    probes, _ = _probes(rng, pool, None)
    return {"kind": "archive", "chunks": [{"a": list(a), "d": list(d)} for a, d, _ in sel], "probes": probes}


def gen_cases(rng, tier):
    m = 1 if tier == "quick" else 40
    cases = []
    cases += [gen_table(rng, 1) for _ in range(45 * m)]
    cases += [gen_table(rng, rng.randint(2, 4)) for _ in range(25 * m)]
    cases += [gen_archive(rng) for _ in range(25 * m)]
    cases += [gen_search(rng) for _ in range(250 * m)]
    # archive conversion with more chunks than maxSamples (=1000): snappy queue, dictionary build, zstd staging
    big = [1001, 1002] if tier == "quick" else [999, 1000, 1001, 1002, 1003, 2001, 3001]
    cases += [{"kind": "bigarchive", "n": n, "seed": rng.randrange(1 << 30)} for n in big]
    return cases


def _chunks(cs):
    return cq_list("(%s, %s)" % (cq_addr(c["a"]), cq_bytes(c["d"] or [])) for c in (cs or []))


def _opts(l):
    return cq_list(("(Some %s)" % cq_bytes(x.get("d") or [])) if x.get("some") else "None" for x in (l or []))


def _bools(l):
    return cq_list(cq_bool(b) for b in (l or []))


def _tuples(ts):
    return cq_list("(%d, %d)" % (t[0], t[1]) for t in (ts or []))


def coq_case(case, out):
    o = out.get("obs")
    k = case["kind"]
    if k == "search":
        inp = "ISearch %s %d" % (cq_list(str(x) for x in case["s"]), case["t"])
        if o is None:
            return "(%s, OFail 99)" % inp
        return "(%s, OSearch %d)" % (inp, o["r"])
    if k == "bigarchive":
        if o is None:
            return "(IBig %d 0, OFail 99)" % case["n"]
        return "(IBig %d %d, OBig %d %d %d %d %d %d %s)" % (case["n"], o["nabsent"], o["count"], o["nhas"], o["ngetok"], o["niter"], o["niterok"],
                                                              o["nabsentok"], cq_bool(o["sorted"]))
    if k == "archive":
        if o is None:
            return "(IArchive %s [] [] %s [] [], OFail 99)" % (_chunks(case["chunks"]), cq_list(cq_addr(a) for a in case["probes"]))
        sfx = cq_list(str(int.from_bytes(bytes(s), "big")) for s in (o.get("suffixes") or []))
        inp = "IArchive %s %s %s %s %s %s" % (_chunks(case["chunks"]), cq_list(str(p) for p in (o.get("prefixes") or [])), sfx,
                                              cq_list(cq_addr(a) for a in case["probes"]),
                                              cq_list(str(x) for x in (o.get("spanlens") or [])),
                                              cq_list("(%d, %d)" % (r[0], r[1]) for r in (o.get("refs") or [])))
        return "(%s, OArchive %d %s %s %s %s)" % (inp, o["count"], _bools(o.get("has")), _opts(o.get("get")), _chunks(o.get("iter")),
                                                   cq_bytes(o.get("idx") or []))
    # table / conjoin
    probes = cq_list(cq_addr(a) for a in case["probes"])
    pre = _bools(case["pre"])
    if o is None:
        tabs = cq_list("(%s, [])" % cq_list("mkCrec %s %s [] 0" % (cq_addr(c["a"]), cq_bytes(c["d"])) for c in t) for t in case["tables"])
        return "(ITable %s [] %s %s, OFail 99)" % (tabs, probes, pre)
    tabs = cq_list("(%s, %s)" % (cq_list("mkCrec %s %s %s %d" % (cq_addr(r["a"]), cq_bytes(r["d"] or []), cq_bytes(r["z"] or []), r["crc"])
                                         for r in t["recs"]), _tuples(t["tuples"])) for t in o["tables"])
    inp = "ITable %s %s %s %s" % (tabs, _tuples(o.get("merged")), probes, pre)
    ob = "OTable %s %d %d %s %s %s %s %s %s %s %s" % (
        cq_bytes(o["file"]), o["count"], o["unc"], _bools(o.get("has")), _opts(o.get("get")), _bools(o.get("hm")), cq_bool(o.get("hmrem")),
        _chunks(o.get("gm")), _bools(o.get("gmflags")), cq_bool(o.get("gmrem")), _chunks(o.get("iter")))
    return "(%s, %s)" % (inp, ob)


def classify(case, out):
    o = out.get("obs")
    if o is None:
        return ["panic-or-error"]
    k = case["kind"]
    t = []
    if k == "search":
        t.append("search")
        s, x = case["s"], case["t"]
        if len(set(s)) < len(s):
            t.append("search-dup")
        if x not in s:
            t.append("search-absent")
        if s and x > s[-1]:
            t.append("search-beyond")
        if not s:
            t.append("search-empty")
        return t
    if k == "bigarchive":
        return ["archive-over-maxsamples" if case["n"] > 1000 else "archive-big-under-maxsamples"]
    if k == "archive":
        t.append("archive")
        cs = case["chunks"]
    else:
        t.append("table" if len(case["tables"]) == 1 else "conjoin")
        cs = [c for tb in case["tables"] for c in tb]
        addrs = [tuple(c["a"]) for c in cs]
        if len(set(addrs)) < len(addrs):
            t.append("conjoin-duplicates")
        if any(case["pre"]):
            t.append("pre-found")
        maxp = max(bytes(c["a"][:8]) for c in cs)
        if any(bytes(p[:8]) > maxp for p in case["probes"]):
            t.append("early-exit")
    present = {tuple(c["a"]) for c in cs}
    runs = {}
    for a in present:
        runs[a[:8]] = runs.get(a[:8], 0) + 1
    if any(v >= 2 for v in runs.values()):
        t.append("prefix-collision")
    if any(tuple(p) not in present and tuple(p[:8]) in runs for p in case["probes"]):
        t.append("absent-in-run")
    return t


def nontrivial(case, out):
    return True


def shrink_candidates(case):
    k = case["kind"]
    if k == "bigarchive":
        for n in (1001, 1002, 2001):
            if n < case["n"]:
                yield dict(case, n=n)
        return
    if k == "search":
        s = case["s"]
        for i in range(len(s)):
            yield dict(case, s=s[:i] + s[i + 1:])
    elif k == "archive":
        cs = case["chunks"]
        for i in range(len(cs)):
            if len(cs) > 1:
                yield dict(case, chunks=cs[:i] + cs[i + 1:])
        for i in range(len(case["probes"])):
            if len(case["probes"]) > 1:
                yield dict(case, probes=case["probes"][:i] + case["probes"][i + 1:])
    else:
        tabs = case["tables"]
        for ti in range(len(tabs)):
            if len(tabs) > 1:
                yield dict(case, tables=tabs[:ti] + tabs[ti + 1:])
            for i in range(len(tabs[ti])):
                if len(tabs[ti]) > 1:
                    nt = list(tabs)
                    nt[ti] = tabs[ti][:i] + tabs[ti][i + 1:]
                    yield dict(case, tables=nt)
        for i in range(len(case["probes"])):
            if len(case["probes"]) > 1:
                yield dict(case, probes=case["probes"][:i] + case["probes"][i + 1:], pre=case["pre"][:i] + case["pre"][i + 1:])


def neighbours(case, rng):
    out = []
    if case["kind"] == "search":
        for d in (-2, -1, 1, 2):
            out.append(dict(case, t=max(0, min(2 ** 64 - 1, case["t"] + d))))
        for x in case["s"]:
            out.append(dict(case, t=x))
    elif case["kind"] == "table":
        for _ in range(30):
            nt = [list(t) for t in case["tables"]]
            for t in nt:
                rng.shuffle(t)
            out.append(dict(case, tables=nt))
        out.append(dict(case, pre=[False] * len(case["pre"])))
    return out


def search_cases(rng):
    return [gen_table(rng, 1) for _ in range(40)] + [gen_table(rng, 2) for _ in range(20)] + [gen_search(rng) for _ in range(200)]
