"""C45 — Replicas converge to their source and never show invented state."""
from lib import vlib
from lib.vlib import cq_list

ID = "C45"
HARNESS_PKG = "c45"
HARNESS_RUNNER = "c45"
COQ_TARGETS = ["theories/C45/Corr.vo"]
COQ_CORR_MODULE = "C45.Model C45.Spec C45.Corr"
COQ_CASE_TYPE = "C45.Corr.case"
COQ_CHECK = "C45.Corr.check_case"
COQ_MODEL_OBS = "(fun c => C45.Corr.model_obs (fst c))"
DESIGN_REF = "§5 C45"
TECHNIQUE = ("Coq proof by invariant over every sequence of steps of (a) the primary/standby commit-hook state machine and (b) the push-on-write / "
             "read-replica machine + in-Coq correspondence of (b) against two in-process engines wired by @@dolt_replicate_to_remote / "
             "@@dolt_read_replica_remote over a file:// remote")
LEVEL_TEXT = ("Proof (P): standby_prefix, standby_rejects, transition_no_loss, caught_up_converges (with the fairness step explicit), replica_heads_real and "
              "push_on_write_present are proved on the model for all step sequences (commits, successful and failed pushes, restarts, standby writes, "
              "acknowledgements, transitions, pulls). Partial: the cluster model (a) is NOT tied to the code by a correspondence run in this version "
              "(no two-server harness); (b) is. Timing, gRPC and process restarts are nondeterministic steps.")
LEVEL_NOTE = ("Trusted: Coq kernel, Go harness + Python glue. Modelled, not verified: the commithook goroutine, controller waits and gRPC replication service "
              "(abstracted to CReplicateOk/Fail, CAck, CTransition), the pull/fetch machinery (C35), SQL engine. Roots and commits are opaque identifiers; "
              "that a newer root contains the earlier acknowledged writes is the commit-graph property C19/C35.")
THEOREMS = ["standby_prefix", "standby_rejects", "transition_no_loss", "caught_up_converges", "replica_heads_real", "push_on_write_present"]
RULE = ("sequences of 4-10 steps: commit on main or on one of two side branches (created on first use) with push-on-write, and read-replica transaction starts "
        "(pull); non-trivial = at least one commit followed later by a pull; distinct by step list")
ASSUMPTIONS = ["file:// remote reachable (no injected push/pull failures in this tier: RCommitPushFail / RPullFail are covered by the theorem only)",
               "the replica is observed only when it starts a transaction (it cannot be read through SQL without pulling)"]
REQUIRED_TAGS = ["commit-main", "commit-branch", "pull", "pull-after-commit", "new-branch-replicated"]
HARNESS_TIMEOUT = 1500


def gen_one(rng, n):
    steps = []
    for _ in range(n):
        if rng.random() < 0.6:
            steps.append({"op": "commit", "branch": rng.choice([0, 0, 1, 2])})
        else:
            steps.append({"op": "pull"})
    steps.append({"op": "pull"})
    return {"steps": steps}


def gen_cases(rng, tier):
    fixed = [{"steps": [{"op": "commit", "branch": 0}, {"op": "pull"}, {"op": "commit", "branch": 1}, {"op": "commit", "branch": 0}, {"op": "pull"},
                        {"op": "commit", "branch": 1}, {"op": "pull"}]},
             {"steps": [{"op": "pull"}, {"op": "commit", "branch": 2}, {"op": "commit", "branch": 2}, {"op": "pull"}, {"op": "pull"}]}]
    n = 2 if tier == "quick" else 150
    return fixed + [gen_one(rng, rng.randint(4, 9)) for _ in range(n)]


def _heads(h):
    return cq_list("(%d, %d)" % (b, c) for b, c in (h or []))


def coq_case(case, out):
    o = out.get("obs")
    steps = cq_list(("(RCommit %d %d)" % (s["branch"], i + 1)) if s["op"] == "commit" else "RPull" for i, s in enumerate(case["steps"]))
    inp = "([(0, 0)], %s)" % steps
    if o is None or out.get("err") or out.get("panic") or any(s.get("err") for s in o["steps"]):
        return "(%s, [([(9, 9)], [(9, 9)])])" % inp
    obs = cq_list("(%s, %s)" % (_heads(s["remote"]), _heads(s["replica"])) for s in o["steps"])
    return "(%s, %s)" % (inp, obs)


def classify(case, out):
    o = out.get("obs")
    if o is None or out.get("err") or out.get("panic"):
        return ["harness-error"]
    t = set()
    seen_commit = False
    for s, so in zip(case["steps"], o["steps"]):
        if so.get("err"):
            t.add("step-error")
        if so.get("warn"):
            t.add("warning")
        if s["op"] == "commit":
            t.add("commit-main" if s["branch"] == 0 else "commit-branch")
            seen_commit = True
        else:
            t.add("pull")
            if seen_commit:
                t.add("pull-after-commit")
            if any(b != 0 for b, _ in (so.get("replica") or [])):
                t.add("new-branch-replicated")
    return sorted(t)


def nontrivial(case, out):
    ops = [s["op"] for s in case["steps"]]
    return "commit" in ops and "pull" in ops[ops.index("commit"):]


def match_known(finding, case, out):
    return False
