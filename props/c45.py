"""C45 — Replicas converge to their source and never show invented state."""
from lib import vlib
from lib.vlib import cq_list

ID = "C45"
HARNESS_PKG = "c45"
HARNESS_RUNNER = "c45"
COQ_TARGETS = ["theories/C45/Corr.vo"]
COQ_CORR_MODULE = "C45.Model C45.Spec C45.Corr"
COQ_CASE_TYPE = "C45.Corr.case"
COQ_CHECK = "C45.Corr.check_case"
COQ_MODEL_OBS = "(fun c => C45.Corr.model_obs (fst c))"
DESIGN_REF = "§5 C45"
TECHNIQUE = ("Coq proof by invariant over every sequence of steps of (a) the primary/standby commit-hook state machine and (b) the push-on-write / "
             "read-replica machine + in-Coq correspondence of (a) against the real cluster.commithook run in-process and of (b) against two in-process engines wired by @@dolt_replicate_to_remote / "
             "@@dolt_read_replica_remote over a file:// remote")
LEVEL_TEXT = ("Proof (P): standby_prefix, standby_rejects, transition_no_loss, caught_up_converges and converges_after_retries (any number of failed attempts, "
              "then one success: the fairness hypothesis is explicit), replica_heads_real and push_on_write_present are proved on the model for all step sequences. Both machines "
              "are tied to the code: (a) the real cluster.commithook is constructed through the verif export and run in-process (its replicate/tick threads, Execute, the "
              "replication wait, isCaughtUp, setRole) against a second file-backed store, (b) push-on-write / read replica over a file remote with injected outages. Partial: the "
              "Controller's transition loop is emulated by the harness (wait for isCaughtUp, then setRole), the gRPC replication service and real restarts are not driven; "
              "oracle_on_model is established by execution on a family of step lists, not as a theorem.")
LEVEL_NOTE = ("Trusted: Coq kernel, Go harness + Python glue. Modelled, not verified: the commithook goroutine, controller waits and gRPC replication service "
              "(abstracted to CReplicateOk/Fail, CAck, CTransition), the pull/fetch machinery (C35), SQL engine. Roots and commits are opaque identifiers; "
              "that a newer root contains the earlier acknowledged writes is the commit-graph property C19/C35.")
THEOREMS = ["replica_after_pull_current", "deleted_branch_gone_after_pull", "converges_after_retries", "oracle_on_model_examples (executed)", "standby_prefix", "standby_rejects", "transition_no_loss", "caught_up_converges", "replica_heads_real", "push_on_write_present"]
RULE = ("sequences of 4-10 steps: commit on main or on one of two side branches (created on first use) with push-on-write, read-replica transaction starts "
        "(pull), tag creation (tag named like a branch, or sorting between branch names), branch deletion on the primary (pushed to the remote), and remote outages (break / fix) during which commits and pulls happen; non-trivial = at least one commit followed later by a pull; distinct by step list")
ASSUMPTIONS = ["remote outages are injected by replacing the file:// remote directory with a regular file (pushes and pulls fail) with @@dolt_skip_replication_errors=1; "
               "regression (fb3d2cc): when the first commit after the variable is set fails to reach the remote and the remote recovers, later commits must be pushed (the oracle demands it); "
               "the failed push is reported on the server's output/log ('error pushing: ...'), not as a SQL warning of the committing session — the oracle does not require a SQL warning",
               "the replica is observed only when it starts a transaction (it cannot be read through SQL without pulling)",
               "branch deletions are generated only while the remote is reachable (the model has no failed-delete step); tags are created at main's head and named like a branch "
               "(b1, v2) or between branch names (b15); commits on a live branch whose name is also a tag name are made through the revision database `db/branch` because "
               "dolt_checkout('<name>') resolves such a name to the tag (detached-head error)",
               "cluster commit2: the push in flight is held at the hook's sqlCtxFactory call (after it captured the root to push and released its lock) until the second commit's "
               "post-commit callback has run; the model's atomic CReplicateOk linearises the in-flight attempt where it captured its root"]
REQUIRED_TAGS = ["cluster-commit-during-inflight-push", "cluster-transition", "cluster-transition-refused", "cluster-retry-scheduled", "cluster-standby-role-ignores-commit", "cluster-standby-skips-roots", "cluster-acked-commit",
                 "reg-recovers-after-first-push-failed", "commit-push-failed", "pull-failed", "commit-main", "commit-branch", "pull", "pull-after-commit", "new-branch-replicated",
                 "branch-deleted-on-source", "deleted-branch-name-is-a-tag", "pull-after-branch-delete", "tag-named-like-live-branch"]
HARNESS_TIMEOUT = 1500


def gen_one(rng, n):
    steps = []
    broken = False
    for _ in range(n):
        r = rng.random()
        if r < 0.42:
            steps.append({"op": "commit", "branch": rng.choice([0, 0, 1, 2])})
        elif r < 0.68:
            steps.append({"op": "pull"})
        elif r < 0.76:
            steps.append({"op": "tag", "branch": rng.choice([1, 2, 15])})     # tag named b1 / v2 (= a branch name; b1 < main < v2) or b15 (sorts between b1 and main)
        elif r < 0.86:
            if broken:
                steps.append({"op": "pull"})
            else:
                steps.append({"op": "delbranch", "branch": rng.choice([1, 2])})   # deleted on the primary, push-on-write deletes it on the remote
        elif not broken:
            steps.append({"op": "break"})       # the remote becomes unreachable: pushes and pulls fail
            broken = True
        else:
            steps.append({"op": "fix"})
            broken = False
    if broken:
        steps.append({"op": "fix"})
    steps.append({"op": "pull"})
    return {"steps": steps}


def gen_cases(rng, tier):
    fixed = [{"steps": [{"op": "commit", "branch": 0}, {"op": "pull"}, {"op": "commit", "branch": 1}, {"op": "commit", "branch": 0}, {"op": "pull"},
                        {"op": "commit", "branch": 1}, {"op": "pull"}]},
             {"steps": [{"op": "pull"}, {"op": "commit", "branch": 2}, {"op": "commit", "branch": 2}, {"op": "pull"}, {"op": "pull"}]},
             {"steps": [{"op": "commit", "branch": 0}, {"op": "pull"}, {"op": "break"}, {"op": "commit", "branch": 0}, {"op": "commit", "branch": 1}, {"op": "pull"},
                        {"op": "fix"}, {"op": "pull"}, {"op": "commit", "branch": 0}, {"op": "pull"}]},
             {"steps": [{"op": "break"}, {"op": "commit", "branch": 1}, {"op": "fix"}, {"op": "commit", "branch": 1}, {"op": "pull"}]},
             # a branch whose name is also a tag name is deleted on the source: the replica must drop the branch (and keep it dropped), then it is recreated
             {"steps": [{"op": "commit", "branch": 2}, {"op": "tag", "branch": 2}, {"op": "pull"}, {"op": "delbranch", "branch": 2}, {"op": "pull"}, {"op": "pull"},
                        {"op": "commit", "branch": 2}, {"op": "pull"}]},
             {"steps": [{"op": "commit", "branch": 1}, {"op": "tag", "branch": 1}, {"op": "tag", "branch": 2}, {"op": "commit", "branch": 2}, {"op": "pull"}, {"op": "delbranch", "branch": 1},
                        {"op": "pull"}, {"op": "delbranch", "branch": 2}, {"op": "pull"}]},
             # commits on a live branch whose name is also a tag name (the harness goes through the revision database: dolt_checkout('<name>') picks the tag), also during an outage
             {"steps": [{"op": "commit", "branch": 0}, {"op": "tag", "branch": 2}, {"op": "commit", "branch": 2}, {"op": "tag", "branch": 1}, {"op": "break"}, {"op": "commit", "branch": 1},
                        {"op": "commit", "branch": 2}, {"op": "fix"}, {"op": "pull"}, {"op": "commit", "branch": 2}, {"op": "pull"}]},
             # a tag name (b15) sorting between the branch names b1 and main / v2; both branches deleted one after the other
             {"steps": [{"op": "commit", "branch": 1}, {"op": "commit", "branch": 2}, {"op": "tag", "branch": 15}, {"op": "tag", "branch": 2}, {"op": "pull"},
                        {"op": "delbranch", "branch": 1}, {"op": "pull"}, {"op": "delbranch", "branch": 2}, {"op": "commit", "branch": 0}, {"op": "pull"}]}]
    n, nc = (4, 4) if tier == "quick" else (150, 150)
    cfixed = [{"mode": "cluster", "steps": [{"op": "down"}, {"op": "start"}, {"op": "commit"}, {"op": "commit"}, {"op": "transition"}, {"op": "up"},
                                            {"op": "commit"}, {"op": "commit"}, {"op": "transition"}, {"op": "commit"}]},
              {"mode": "cluster", "steps": [{"op": "start"}, {"op": "commit"}, {"op": "commit"}, {"op": "commit"}, {"op": "transition"}, {"op": "commit"}, {"op": "commit"}]},
              # a write landing while the push of the previous one is in flight and nothing after it; then a graceful transition
              {"mode": "cluster", "steps": [{"op": "start"}, {"op": "commit"}, {"op": "commit2"}, {"op": "await"}, {"op": "transition"}, {"op": "commit"}]},
              {"mode": "cluster", "steps": [{"op": "down"}, {"op": "start"}, {"op": "commit"}, {"op": "up"}, {"op": "commit2"}, {"op": "commit"}, {"op": "commit2"}, {"op": "transition"}]}]
    return fixed + cfixed + [gen_one(rng, rng.randint(4, 9)) for _ in range(n)] + [gen_cluster(rng) for _ in range(nc)]


def _groups(case):
    """cluster case: the model steps each harness step stands for"""
    out, started, down, swapped, dirty = [], False, False, False, False
    for i, s in enumerate(case["steps"]):
        op = s["op"]
        if op == "down":
            down = True
            out.append([])
        elif op == "up":
            down = False
            out.append(["CReplicateFail", "CReplicateOk"] if started else [])     # failed attempts, then the retry succeeds
            dirty = False if started else dirty
        elif op == "start":
            started = True
            out.append(["(CCommit 0)"] if down else ["(CCommit 0)", "CReplicateOk"])
            dirty = down
        elif op == "commit":
            if swapped:
                out.append(["(CStandbyWrite %d)" % (2 * (i + 1))])
            elif down:
                out.append(["(CCommit %d)" % (2 * (i + 1)), "CReplicateFail"])
                dirty = True
            else:
                out.append(["(CCommit %d)" % (2 * (i + 1)), "CReplicateOk", "CAck"])
                dirty = False
        elif op == "commit2":
            # the second write lands while the push of the first is in flight. The model's push is atomic: the in-flight
            # attempt is linearised where it captured its root (before the second write), then the hook pushes again
            a, b = 2 * (i + 1), 2 * (i + 1) + 1
            if swapped:
                out.append(["(CStandbyWrite %d)" % a, "(CStandbyWrite %d)" % b])
            elif down:
                out.append(["(CCommit %d)" % a, "(CCommit %d)" % b, "CReplicateFail"])
                dirty = True
            else:
                out.append(["(CCommit %d)" % a, "CReplicateOk", "(CCommit %d)" % b, "CReplicateOk", "CAck"])
                dirty = False
        elif op == "await":
            out.append(["CReplicateOk"])
        elif op == "transition":
            out.append(["CTransition"])
            if not dirty:
                swapped = True
    return out


def gen_cluster(rng):
    steps = []
    down = rng.random() < 0.6
    if down:
        steps.append({"op": "down"})
    steps.append({"op": "start"})
    for _ in range(rng.randint(0, 3)):
        steps.append({"op": "commit"})
    if down:
        if rng.random() < 0.5:
            steps.append({"op": "transition"})      # refused: not caught up
        steps.append({"op": "up"})
    for _ in range(rng.randint(1, 4)):
        steps.append({"op": "commit2" if rng.random() < 0.3 else "commit"})
    steps.append({"op": "transition"})
    for _ in range(rng.randint(1, 2)):
        steps.append({"op": "commit"})              # the hook is in the standby role now
    return {"mode": "cluster", "steps": steps}


def _steps(case):
    """model steps: a commit / pull while the remote is unreachable is the failing variant; break / fix change nothing"""
    out, broken = [], False
    for i, s in enumerate(case["steps"]):
        if s["op"] == "break":
            broken = True
            out.append("RPullFail")
        elif s["op"] == "fix":
            broken = False
            out.append("RPullFail")
        elif s["op"] == "commit":
            out.append("(%s %d %d)" % ("RCommitPushFail" if broken else "RCommit", s["branch"], i + 1))
        elif s["op"] == "tag":
            out.append("(RTag %d)" % s["branch"])
        elif s["op"] == "delbranch":
            out.append("RPullFail" if broken else "(RDelete %d)" % s["branch"])     # the generator deletes only while the remote is reachable
        else:
            out.append("RPullFail" if broken else "RPull")
    return out


def _heads(h):
    return cq_list("(%d, %d)" % (b, c) for b, c in (h or []))


def coq_case(case, out):
    o = out.get("obs")
    if case.get("mode") == "cluster":
        inp = "(IClust %s)" % cq_list(cq_list(g) for g in _groups(case))
        if o is None or out.get("err") or out.get("panic") or any(s.get("err") or s.get("ackerr") for s in o["cluster"]):
            return "(%s, OClust [(7777, true, true)])" % inp
        obs = cq_list("(%d, %s, %s)" % (9998 if s["standby"] < 0 else s["standby"], "true" if s["dirty"] else "false", "true" if s["swapped"] else "false") for s in o["cluster"])
        return "(%s, OClust %s)" % (inp, obs)
    steps = cq_list(_steps(case))
    inp = "(IRepl [(0, 0)] %s)" % steps
    if o is None or out.get("err") or out.get("panic") or any(s.get("err") for s in o["steps"]):
        return "(%s, ORepl [([(9, 9)], [(9, 9)])])" % inp
    obs = cq_list("(%s, %s)" % (_heads(s["remote"]), _heads(s["replica"])) for s in o["steps"])
    return "(%s, ORepl %s)" % (inp, obs)


def classify(case, out):
    o = out.get("obs")
    if o is None or out.get("err") or out.get("panic"):
        return ["harness-error"]
    if case.get("mode") == "cluster":
        t = {"cluster"}
        prev = None
        for s, so in zip(case["steps"], o["cluster"]):
            if so.get("err") or so.get("ackerr"):
                t.add("step-error")
            if so.get("refused"):
                t.add("cluster-transition-refused")
            if so.get("retry"):
                t.add("cluster-retry-scheduled")
            if so["swapped"] and s["op"] == "transition":
                t.add("cluster-transition")
            if so["swapped"] and s["op"] == "commit":
                t.add("cluster-standby-role-ignores-commit")
            if s["op"] == "up" and prev is not None and so["standby"] > prev + 2:
                t.add("cluster-standby-skips-roots")
            if so.get("raced"):
                t.add("cluster-commit-during-inflight-push")
            if s["op"] == "commit" and not so["dirty"] and not so["swapped"]:
                t.add("cluster-acked-commit")
            prev = so["standby"]
        return sorted(t)
    t = set()
    seen_commit = False
    broken = False
    live, tags, deleted = set(), set(), False
    for s, so in zip(case["steps"], o["steps"]):
        if so.get("err"):
            t.add("step-error")
        if so.get("warn"):
            t.add("warning")
        if s["op"] in ("break", "fix"):
            broken = s["op"] == "break"
            continue
        if s["op"] == "tag":
            if s["branch"] in live:
                t.add("tag-named-like-live-branch")
            tags.add(s["branch"])
            continue
        if s["op"] == "delbranch":
            if s["branch"] in live:
                live.discard(s["branch"])
                deleted = True
                t.add("branch-deleted-on-source")
                if s["branch"] in tags:
                    t.add("deleted-branch-name-is-a-tag")
            continue
        if s["op"] == "commit":
            live.add(s["branch"])
            t.add("commit-main" if s["branch"] == 0 else "commit-branch")
            if broken:
                t.add("commit-push-failed")
            if _wedged(case):
                t.add("reg-recovers-after-first-push-failed")
            seen_commit = True
        else:
            if broken:
                t.add("pull-failed")
            t.add("pull")
            if deleted and not broken:
                t.add("pull-after-branch-delete")
            if seen_commit:
                t.add("pull-after-commit")
            if any(b != 0 for b, _ in (so.get("replica") or [])):
                t.add("new-branch-replicated")
    return sorted(t)


def nontrivial(case, out):
    if case.get("mode") == "cluster":
        return True
    ops = [s["op"] for s in case["steps"]]
    return "commit" in ops and "pull" in ops[ops.index("commit"):]


def _wedged(case):
    """the first commit after @@dolt_replicate_to_remote was set ran while the remote was unreachable, and a later
    commit ran with the remote reachable again"""
    broken, first, wedged = False, True, False
    for s in case["steps"]:
        if s["op"] == "break":
            broken = True
        elif s["op"] == "fix":
            broken = False
        elif s["op"] == "commit":
            if first and broken:
                wedged = True
            elif wedged and not broken:
                return True
            first = False
    return False


def match_known(finding, case, out):
    return False
