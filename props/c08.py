"""C08 — Garbage collection keeps everything that is still reachable."""
from lib import vlib
from lib.vlib import cq_list, cq_bool

ID = "C08"
HARNESS_PKG = "c08"
HARNESS_RUNNER = "c08"
COQ_TARGETS = ["theories/C08/Corr.vo"]
COQ_CORR_MODULE = "C08.Model C08.Spec C08.Corr"
COQ_CASE_TYPE = "C08.Corr.case"
COQ_CHECK = "C08.Corr.check_case"
COQ_MODEL_OBS = "(fun c => C08.Corr.model_obs (fst c))"
DESIGN_REF = "§5 C08, §6 F2"
TECHNIQUE = ("Coq proof (worklist marking = reachability for every finite chunk graph, fuel proved sufficient; invariant over every interleaving of "
             "session puts/reads/commits with the phases of any number of collections) + in-Coq correspondence on chunk graphs exported by the "
             "real walker from on-disk repositories collected by the real `dolt_gc`")
LEVEL_TEXT = ("Proof (F/M): mark_complete / mark_is_reach (the level-by-level marking of SaveHashes computes exactly the set reachable through the "
              "walker's references, for every graph; fuel_enough), gc_safe_sequential (sweep keeps every reachable chunk unchanged), "
              "gc_safe_concurrent (for every list of events — session put with reference check, read, commit, and GC begin/mark/finalize/swap — "
              "everything reachable from the current store root is present), novel_survives (chunks written or read by sessions while a collection "
              "runs are present after it).")
LEVEL_NOTE = ("Trusted: Coq kernel, Go harness + Python glue. Modelled, not verified: generations (the old-generation filter is an optimisation that "
              "relies on the old generation being closed), archive formats (C06), table-file I/O, goroutine scheduling inside SaveHashes, the "
              "safepoint controller's session tracking (represented by: every put/read/commit during a collection reports to the keeper and blocks "
              "while finalizing). The references of a chunk are C09's walker: an address the walker omits is invisible to this model too — the "
              "end-to-end consequence of F2 is checked by the harness (revert series continued after a collection).")
THEOREMS = ["mark_complete", "mark_is_reach", "fuel_enough", "gc_safe_sequential", "gc_safe_concurrent", "novel_survives",
            "gc_generational_safe", "oldgen_filter_needs_closed", "oracle_on_model"]
RULE = ("on-disk repositories built through SQL (C09's six scenarios × options) plus a deleted branch as garbage; `call dolt_gc` in modes default, "
        "--full, --shallow, --archive-level=0/1; a third of the cases with a concurrent writer session committing on its own branch; one recipe "
        "continues a revert series after the collection; non-trivial = the pre-collection graph has at least 20 chunks; distinct by recipe")
ASSUMPTIONS = ["single process, in-process SQL engine over an on-disk repository; the concurrent writer commits on its own branch",
               "read-back fingerprint = fixed list of queries over every branch (tables, status, merge status, conflicts, rebase plan, log, hashes), "
               "tags and stashes, from a fresh session"]
REQUIRED_TAGS = ["mode-default", "mode-full", "mode-shallow", "mode-archive", "concurrent", "concurrent-acked", "garbage-dropped",
                 "scn-merge", "scn-cherry", "scn-revert", "scn-rebase", "scn-rebase_conflict", "continue-after-gc",
                 "continue-merge", "continue-cherry", "continue-rebase", "continue-rebase_conflict", "remote-tracking-refs", "adaptive-out-of-band-small-value",
                 "commit-before-begin-gc", "oldgen-then-retarget", "oldgen-then-retarget-full"]
HARNESS_TIMEOUT = 2400
COQ_SHARD = 12

SCNS = ["plain", "merge", "cherry", "revert", "rebase", "rebase_conflict"]
MODES = ["", "--full", "--shallow", "--archive-level=0", "--archive-level=1"]


def gen_cases(rng, tier):
    cases = [{"dropx": True, "cont": "revert", "mode": ""},                      # F2 regression (repaired)
             {"confbase": True, "cont": "conflicts_read", "mode": ""},         # witness of the ConflictMetadata.bc finding
             {"confbase": True, "cont": "conflicts_read", "mode": "--shallow"},  # control: no sweep
             # a commit landing between entering the collector and BeginGC (deterministic window, real ValueStore.GC)
             {"window": True, "rows": 1, "mode": ""}, {"window": True, "rows": 5, "mode": "--full"},
             # default gc (history moves to the old generation) -> the branch is deleted, a tag and a stash still hold it -> gc under test
             {"scn": "plain", "rows": 3, "pregc": True, "mode": "--full", "tag": True},
             {"scn": "merge", "rows": 5, "pregc": True, "mode": "--full", "stash": True},
             {"scn": "plain", "rows": 3, "pregc": True, "mode": "--archive-level=0"},
             {"scn": "rebase_conflict", "rows": 3, "pregc": True, "mode": "--archive-level=1"},
             {"scn": "plain", "rows": 3, "pregc": True, "mode": ""}]
    n = 3 if tier == "quick" else 40
    for scn in SCNS:
        for j in range(n):
            c = {"scn": scn, "rows": rng.choice([3, 5, 30]), "mode": MODES[(SCNS.index(scn) + j) % len(MODES)] if j < 2 else rng.choice(MODES)}
            for k in ("staged", "unstaged", "tag", "stash", "fk", "idx", "blob"):
                c[k] = rng.random() < 0.4
            if scn == "revert":
                c["pending"] = rng.random() < 0.6
            c["remote"] = rng.random() < 0.5
            c["wide"] = (j == 0) or rng.random() < 0.3   # wide rows: short out-of-band adaptive values must survive the collection
            c["concurrent"] = (j == 2) or rng.random() < 0.15
            if scn in ("merge", "cherry", "rebase", "rebase_conflict") and not c["concurrent"]:
                c["cont"] = "resolve"        # finish the in-progress operation after the collection
            if c["concurrent"] and c["mode"] == "--shallow":
                c["mode"] = ""
            cases.append(c)
    return cases


def _obs(o, case):
    # the continued series must complete and produce the expected table (harness checks the rows)
    cont_ok = not (o.get("cont_err") or "")
    ok_gc = not o.get("gc_err")
    return "{| o_kept := %s; o_fp_equal := %s; o_post_closed := %s; o_acked := %s; o_cont_ok := %s |}" % (
        cq_bool(o["kept"] and ok_gc), cq_bool(o["fp_equal"]), cq_bool(o["post_closed"]), cq_bool(o["acked"]), cq_bool(cont_ok))


BAD = "(([], 0), {| o_kept := false; o_fp_equal := false; o_post_closed := false; o_acked := false; o_cont_ok := false |})"


def coq_case(case, out):
    o = out.get("obs")
    if o is None or out.get("panic") or out.get("err") or not o.get("graph"):
        return BAD
    g = cq_list("(%d, %s)" % (r[0], cq_list(str(x) for x in r[1:])) for r in o["graph"])
    return "((%s, %d), %s)" % (g, o["root"], _obs(o, case))


def classify(case, out):
    o = out.get("obs")
    if o is None or out.get("panic") or out.get("err"):
        return ["panic-or-error"]
    t = ["scn-" + case.get("scn", "confbase" if case.get("confbase") else ("window" if case.get("window") else "dropx"))]
    m = case.get("mode", "")
    t.append({"": "mode-default", "--full": "mode-full", "--shallow": "mode-shallow"}.get(m, "mode-archive"))
    if case.get("concurrent"):
        t.append("concurrent")
        if o.get("acked_n", 0) > 0:
            t.append("concurrent-acked")
    if o.get("script_errs"):
        t.append("script-error")
    if o.get("gc_err"):
        t.append("gc-error")
    if case.get("window"):
        t.append("commit-before-begin-gc")
    if case.get("pregc"):
        t.append("oldgen-then-retarget")
        if case.get("mode") == "--full":
            t.append("oldgen-then-retarget-full")
    if case.get("remote"):
        t.append("remote-tracking-refs")
    if case.get("wide"):
        t.append("adaptive-out-of-band-small-value")
    if case.get("cont") == "resolve":
        t.append("continue-" + case.get("scn", "?"))
    if case.get("cont"):
        t.append("continue-after-gc")
        if o.get("cont_err"):
            t.append("continue-failed")
    if m != "--shallow" and not case.get("concurrent"):
        t.append("garbage-dropped")     # a deleted branch is in every recipe
    for k in ("kept", "fp_equal", "post_closed", "acked"):
        if not o.get(k):
            t.append("not-" + k)
    return t


def nontrivial(case, out):
    o = out.get("obs")
    return bool(o) and (len(o.get("graph") or []) >= 20 or case.get("window"))


def shrink_candidates(case):
    for k in ("staged", "unstaged", "tag", "stash", "fk", "idx", "blob", "pending", "concurrent"):
        if case.get(k):
            c = dict(case)
            c[k] = False
            yield c
    if case.get("mode"):
        c = dict(case)
        c["mode"] = ""
        yield c


def neighbours(case, rng):
    out = []
    for m in MODES:
        c = dict(case)
        c["mode"] = m
        out.append(c)
    for scn in SCNS:
        c = dict(case)
        c.pop("dropx", None)
        c["scn"] = scn
        c.setdefault("rows", 5)
        out.append(c)
    return out


def match_known(finding, case, out):
    # F2 was repaired (WalkAddrs reports merge_state.pending_commit_hashes); nothing of it is suppressed.
    # Open: committed conflicts whose base root-ish (JSON in the artifact value, never walked) is a commit reachable
    # from nothing else: after the collection dolt_conflicts_t cannot be read.
    o = out.get("obs")
    if not o or finding.get("key") != "dolt_gc:ConflictMetadata.bc":
        return False
    if not case.get("confbase") or case.get("cont") != "conflicts_read":
        return False
    if not (o.get("kept") and o.get("post_closed") and o.get("acked")) or o.get("gc_err"):
        return False
    if any("dolt_conflicts_t" not in d for d in (o.get("fp_diff") or [])):
        return False
    return "head value is nil" in (o.get("cont_err") or "")
