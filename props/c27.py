"""C27 — Keyless tables behave as multisets."""
import copy

from lib.vlib import cq_list
from props import c29 as g

ID = "C27"
HARNESS_PKG = "c27"
HARNESS_RUNNER = "c27"
COQ_TARGETS = ["theories/C27/Corr.vo"]
COQ_CORR_MODULE = "C29.Model C27.Model C27.Spec C27.Corr"
COQ_CASE_TYPE = "C27.Corr.case"
COQ_CHECK = "C27.Corr.check_case"
COQ_MODEL_OBS = "(fun c => C27.Corr.model_obs (fst c))"
COQ_SHARD = 120
DESIGN_REF = "§5 C27"
TECHNIQUE = ("Coq proof (stored form hash-id -> (cardinality,row) refines a multiset for every sequence of writer operations; merge = per-row "
             "three-way rule on multiplicities) + in-Coq correspondence through SQL, statement by statement and for merges in both directions")
LEVEL_TEXT = ("Proof (F/M): for every sequence of keyless writer Insert/Delete/Update calls and every store, the multiplicity of every row in the stored "
              "form equals the multiset operations' result (keyless_refines_multiset, under injectivity of the row hash), stored cardinalities stay "
              "positive, and for all stores the merge yields per row exactly merge_card of the three multiplicities with a conflict iff both sides "
              "changed it (keyless_merge_spec, merge_applies_deltas). Tied to the code by DML with duplicate rows observed after every statement "
              "(GROUP BY + COUNT, COUNT(*), index lookup) and merges of independently edited copies.")
LEVEL_NOTE = ("Trusted: Coq kernel, Go harness (SQL script runner), Python glue. Section hypothesis: the row hash (xxh3-128 of the value fields) is injective on "
              "the rows of a history. Modelled, not verified: the SQL engine's expansion of a statement into per-copy writer calls (derived from the "
              "previously observed state), secondary index maintenance (observed through a lookup), DELETE ... LIMIT n (the engine chooses which matching copies go; the oracle demands exactly min(n, matching) copies "
              "removed from matching rows only, and the writer calls are read off the observed change); UPDATE ... LIMIT n likewise (exactly min(n, matching) matching copies are picked, the changed ones move to their image). The secondary "
              "index on the first (nullable) column is modelled by its entry set (indexed value, hash id) with the writer's rules (entry removed only when the "
              "cardinality read before the primary delete is <= 1); index_mirrors_store / index_entry_iff_present prove for every writer-op sequence that an entry "
              "is present exactly when the row's multiplicity is positive; after every statement every value of the indexed column, NULL included, is counted "
              "through the index and must equal the scan's multiplicities. "
              "Equal changes: dolt records a conflict also when both sides change a row's multiplicity in the SAME way (MaybeShortCircuit: 'For keyless "
              "tables, this counts as a conflict'; computeProllyTreePatches records convergent keyless edits as conflicts). Decision: the property text "
              "permits this. It says a conflict is reported WHEN the changes differ (a sufficient condition; C29's text, by contrast, says 'exactly when'), "
              "and a reported conflict is not a merge result: nothing is applied or dropped silently, dolt_conflicts_t carries base/our/their cardinality "
              "(compared by the oracle) and the table keeps ours until resolved. For a multiset an equal change is genuinely ambiguous between "
              "accumulating (base + both deltas: 3 copies when both add one) and converging (2 copies); refusing to guess does not contradict "
              "'applies each side's change in multiplicity', which the oracle enforces strictly wherever no conflict is reported (result = base + both "
              "deltas, merge_card_deltas) together with 'different changes => conflict' and exact conflict cardinalities. A silent pick in either "
              "direction is a violation. oracle_on_model: proved for the merge conjuncts (merge_oracle_on_model); the statement-by-statement "
              "conjunct is not yet proved (oracle_on_model_partial says what is missing).")
THEOREMS = ["keyless_refines_multiset", "positive_run", "keyless_merge_spec", "merge_card_deltas", "merge_card_conflict_iff", "kmerge_get", "kmerge_conflict_iff",
            "kmerge_conflict_entry", "merge_oracle_on_model", "oracle_on_model_partial",
            "index_mirrors_store", "index_entry_iff_present"]
RULE = ("keyless tables with 2-3 nullable int/varchar columns over tiny value domains (duplicates are the norm), optional secondary index on the first "
        "column; 2-9 statements (INSERT of 1-3 copies, DELETE/UPDATE with a null-safe equality predicate, DELETE/UPDATE ... LIMIT n, directed pairs that duplicate a row and then remove or NULL one copy) observed one by one; then two branches of 0-4 "
        "statements each, merged in both directions; non-trivial = some row reaches multiplicity >= 2; distinct by script text")
ASSUMPTIONS = ["predicates are null-safe equalities on one column; UPDATE assigns one column a constant"]
REQUIRED_TAGS = ["duplicates", "delete-many", "delete-limit", "delete-limit-partial", "update-limit",
                 "keyless-index-2to1-partial-delete", "keyless-index-null-after-partial-update", "update-merge-rows", "with-index", "merge-conflict", "merge-clean", "equal-change-conflict", "one-sided-delta", "card-to-zero"]

INTS = [0, 1, 2]
STRS = ["a", "b"]


def lit(ty, rng, null_p=0.15):
    if rng.random() < null_p:
        return "NULL"
    return str(rng.choice(INTS)) if ty == "int" else "'%s'" % rng.choice(STRS)


def gen_stmt(rng, cols):
    x = rng.random()
    names = [c for c, _ in cols]
    if x < 0.5:
        vals = "(%s)" % ", ".join(lit(t, rng) for _, t in cols)
        n = rng.choice([1, 1, 2, 3])
        return {"k": "ins", "sql": "insert into t values %s" % ", ".join([vals] * n), "row": vals, "n": n}
    ci = rng.randrange(len(cols))
    v = lit(cols[ci][1], rng)
    if x < 0.66:
        return {"k": "del", "sql": "delete from t where %s <=> %s" % (names[ci], v), "ci": ci, "v": v}
    if x < 0.78:
        n = rng.choice([1, 1, 2, 3])
        return {"k": "dell", "sql": "delete from t where %s <=> %s limit %d" % (names[ci], v, n), "ci": ci, "v": v, "n": n}
    cj = rng.randrange(len(cols)) if rng.random() < 0.6 else 0
    w = lit(cols[cj][1], rng, 0.35 if cj == 0 else 0.15)
    if x < 0.9:
        return {"k": "upd", "sql": "update t set %s = %s where %s <=> %s" % (names[cj], w, names[ci], v), "ci": ci, "v": v, "cj": cj, "w": w}
    n = rng.choice([1, 1, 2])
    return {"k": "updl", "sql": "update t set %s = %s where %s <=> %s limit %d" % (names[cj], w, names[ci], v, n),
            "ci": ci, "v": v, "cj": cj, "w": w, "n": n}


def directed(rng, cols):
    """a duplicated row followed by a statement that removes / changes ONE of its copies (the index entry must stay, resp. a
    NULL must reach the index while another copy keeps the old entry)"""
    vals = [lit(t, rng, 0.0) for _, t in cols]
    row = "(%s)" % ", ".join(vals)
    n = rng.choice([2, 2, 3])
    out = [{"k": "ins", "sql": "insert into t values %s" % ", ".join([row] * n), "row": row, "n": n}]
    ci = rng.randrange(len(cols))
    names = [c for c, _ in cols]
    if rng.random() < 0.5:
        out.append({"k": "dell", "sql": "delete from t where %s <=> %s limit 1" % (names[ci], vals[ci]), "ci": ci, "v": vals[ci], "n": 1})
    else:
        ci = rng.randrange(1, len(cols))
        out.append({"k": "updl", "sql": "update t set c0 = NULL where %s <=> %s limit 1" % (names[ci], vals[ci]),
                    "ci": ci, "v": vals[ci], "cj": 0, "w": "NULL", "n": 1})
    return out


def gen_one(rng):
    ncol = rng.choice([2, 2, 3])
    cols = [("c0", "int")] + [("c%d" % i, "int" if rng.random() < 0.6 else "str") for i in range(1, ncol)]
    index = rng.random() < 0.5
    base = [gen_stmt(rng, cols) for _ in range(rng.randint(2, 8))]
    for _ in range(rng.choice([0, 1, 1, 2])):
        i = rng.randint(0, len(base))
        base[i:i] = directed(rng, cols)
    l = [gen_stmt(rng, cols) for _ in range(rng.randint(0, 4))]
    r = [gen_stmt(rng, cols) for _ in range(rng.randint(0, 4))]
    if l and rng.random() < 0.3:
        r.insert(rng.randint(0, len(r)), copy.deepcopy(rng.choice(l)))
    return {"cols": cols, "index": index, "base": base, "l": l, "r": r}


PROBES = [str(v) for v in INTS] + ["NULL"]


def fixed_cases():
    cols = [("c0", "int"), ("c1", "int")]

    def ins(a, b, n=1):
        v = "(%s, %s)" % (a, b)
        return {"k": "ins", "sql": "insert into t values %s" % ", ".join([v] * n), "row": v, "n": n}
    return [{"cols": cols, "index": True,
             "base": [ins(1, 1, 2), ins(2, 2, 1), ins(3, 3, 3), ins(1, 1, 1),
                      {"k": "upd", "sql": "update t set c1 = 1 where c0 <=> 2", "ci": 0, "v": "2", "cj": 1, "w": "1"},
                      {"k": "del", "sql": "delete from t where c0 <=> 3", "ci": 0, "v": "3"}, ins(4, 4, 2), ins(5, 5, 1)],
             "l": [ins(1, 1, 1), ins(4, 4, 1), {"k": "del", "sql": "delete from t where c0 <=> 5", "ci": 0, "v": "5"}, ins(7, 7, 1)],
             "r": [ins(1, 1, 1), {"k": "del", "sql": "delete from t where c0 <=> 2", "ci": 0, "v": "2"},
                   {"k": "del", "sql": "delete from t where c0 <=> 5", "ci": 0, "v": "5"}, ins(8, 8, 2)],
             }]


def gen_cases(rng, tier):
    n = 180 if tier == "quick" else 5000
    cases = fixed_cases()
    while len(cases) < n:
        cases.append(gen_one(rng))
    return [with_steps(c) for c in cases]


def with_steps(c):
    c = dict(c)
    S = []

    def q(s, keep=""):
        S.append({"q": s, "keep": keep} if keep else {"q": s})
    names = [n for n, _ in c["cols"]]
    grp = "select %s, count(*) from t group by %s" % (", ".join(names), ", ".join(names))
    q("create table t (%s)" % ", ".join("%s %s" % (n, g.sqlty(t)) for n, t in c["cols"]))
    if c["index"]:
        q("create index ix on t (c0)")
    for i, st in enumerate(c["base"]):
        q(st["sql"], "E%d" % i)
        q(grp, "S%d" % i)
        q("select count(*) from t", "C%d" % i)
        for j, pv in enumerate(PROBES):
            # every value of the indexed column, NULL included, is looked up (through the index when there is one)
            q("select count(*) from t where c0 %s" % ("is null" if pv == "NULL" else "= " + pv), "X%d_%d" % (i, j))
        q("select * from t", "A%d" % i)
    q("call dolt_commit('-Am','base')")
    q(grp, "B")
    for side in ("l", "r"):
        q("call dolt_checkout('main')")
        q("call dolt_checkout('-b','%s')" % side)
        for st in c[side]:
            q(st["sql"])
        q("call dolt_commit('--allow-empty','-Am','%s')" % side)
        q(grp, side.upper())
    q("set @@dolt_allow_commit_conflicts=1")
    q("set @@dolt_force_transaction_commit=1")
    for name, ours, theirs in (("m1", "l", "r"), ("m2", "r", "l")):
        q("call dolt_checkout('%s')" % ours)
        q("call dolt_checkout('-b','%s')" % name)
        q("call dolt_merge('%s')" % theirs, name)
        q(grp, name + "t")
        q("select * from dolt_conflicts_t", name + "c")
    c["steps"] = S
    return c


def run_impl(ctx, binary, cases):
    """Run the harness; a panic in one of the engine's background goroutines (e.g. the keyless index iterator) kills the
    process and cannot be caught by the harness kernel.  The case being executed then gets the observation {"panic": ...}
    (which no model agrees with and the oracle rejects) and the remaining cases run in a fresh process."""
    import json as _json
    from lib import vlib as _v
    outs = []
    start = 0
    crashes = 0
    while start < len(cases):
        inp = "".join(_json.dumps(c, separators=(",", ":")) + "\n" for c in cases[start:])
        rc, o, e = _v.sh([binary, HARNESS_RUNNER], inp=inp, timeout=1800)
        got = []
        for line in o.splitlines():
            line = line.strip()
            if line.startswith("{"):
                try:
                    got.append(_json.loads(line))
                except ValueError:
                    break
        outs.extend(got)
        start += len(got)
        if start < len(cases):
            crashes += 1
            if crashes > 25:
                raise _v.HarnessError("harness keeps dying: rc=%s\n%s" % (rc, e[-2000:]))
            outs.append({"i": start, "panic": "harness process died (rc=%s) while running this case:\n%s" % (rc, e[:1500])})
            start += 1
    return outs


def litval(s):
    if s == "NULL":
        return None
    if s.startswith("'"):
        return g.val("s:" + s.strip("'"))
    return int(s)


def state(res, ncol):
    return [([g.val(x) for x in r[:ncol]], g.val(r[ncol])) for r in res["rows"]]


def parse(case, out):
    o = out.get("obs")
    if not o:
        return None
    ncol = len(case["cols"])
    d = {"steps": []}
    prev = []
    for i, st in enumerate(case["base"]):
        ks = ["E%d" % i, "S%d" % i, "C%d" % i, "A%d" % i] + ["X%d_%d" % (i, j) for j in range(len(PROBES))]
        if any(k not in o for k in ks) or any(o[k]["err"] for k in ks):
            return None
        new = state(o["S%d" % i], ncol)
        if st["k"] == "ins":
            row = [litval(x.strip()) for x in st["row"].strip("()").split(",")]
            stmt = ("ins", row, st["n"])
            ops = [("Ins", row)] * st["n"]
        else:
            v = litval(st["v"])
            match = [(r, c) for r, c in prev if r[st["ci"]] == v]
            if st["k"] == "del":
                stmt = ("del", st["ci"], v)
                ops = [("Del", r) for r, c in match for _ in range(c)]
            elif st["k"] == "updl":
                w = litval(st["w"])
                stmt = ("updl", st["ci"], v, st["cj"], w, st["n"])
                nd = {tuple(r): c for r, c in new}
                ops = []
                for r, c in match:
                    nr = list(r)
                    nr[st["cj"]] = w
                    if nr != r:
                        ops += [("Upd", r, nr)] * max(0, c - nd.get(tuple(r), 0))
            elif st["k"] == "dell":
                # which copies a LIMIT hits is the engine's choice: the writer calls are read off the observed change
                stmt = ("dell", st["ci"], v, st["n"])
                nd = {tuple(r): c for r, c in new}
                ops = [("Del", r) for r, c in prev for _ in range(max(0, c - nd.get(tuple(r), 0)))]
            else:
                w = litval(st["w"])
                stmt = ("upd", st["ci"], v, st["cj"], w)
                ops = []
                for r, c in match:
                    nr = list(r)
                    nr[st["cj"]] = w
                    if nr != r:
                        ops += [("Upd", r, nr)] * c
        d["steps"].append({"stmt": stmt, "ops": ops, "state": new, "prev": prev,
                           "count": g.val(o["C%d" % i]["rows"][0][0]),
                           "ix": [g.val(o["X%d_%d" % (i, j)]["rows"][0][0]) for j in range(len(PROBES))],
                           "scan": len(o["A%d" % i]["rows"])})
        prev = new
    for k in ("B", "L", "R"):
        if k not in o or o[k]["err"]:
            return None
        d[k] = state(o[k], ncol)
    for name in ("m1", "m2"):
        if any(k not in o for k in (name, name + "t", name + "c")):
            return None
        err = o[name]["err"] or o[name + "t"]["err"] or o[name + "c"]["err"]
        if err:
            d[name] = {"cls": 2, "state": [], "conf": [], "err": err}
            continue
        res = o[name + "c"]
        ix = {c_: i for i, c_ in enumerate(res["cols"])}
        conf = []
        for r in res["rows"]:
            cards = [g.val(r[ix[p + "_cardinality"]]) for p in ("base", "our", "their")]
            row = None
            for p, cd in zip(("base_", "our_", "their_"), cards):
                if cd:
                    row = [g.val(r[ix[p + n]]) for n, _ in case["cols"]]
                    break
            conf.append((row if row is not None else [], cards))
        d[name] = {"cls": 1 if conf else 0, "state": state(o[name + "t"], ncol), "conf": conf, "err": ""}
    return d


def cq_row(r):
    return g.cq_row(r)


def cq_state(m):
    return cq_list("(%s, %d)" % (cq_row(r), c) for r, c in m)


def cq_stmt(s):
    if s[0] == "ins":
        return "(SIns %s %d)" % (cq_row(s[1]), s[2])
    if s[0] == "del":
        return "(SDel %d %s)" % (s[1], g.cq_cell(s[2]))
    if s[0] == "dell":
        return "(SDelL %d %s %d)" % (s[1], g.cq_cell(s[2]), s[3])
    if s[0] == "updl":
        return "(SUpdL %d %s %d %s %d)" % (s[1], g.cq_cell(s[2]), s[3], g.cq_cell(s[4]), s[5])
    return "(SUpd %d %s %d %s)" % (s[1], g.cq_cell(s[2]), s[3], g.cq_cell(s[4]))


def cq_op(o):
    if o[0] == "Upd":
        return "(Upd %s %s)" % (cq_row(o[1]), cq_row(o[2]))
    return "(%s %s)" % (o[0], cq_row(o[1]))


def cq_mobs(m):
    return "{| mo_class := %d; mo_state := %s; mo_conf := %s |}" % (
        m["cls"], cq_state(m["state"]), cq_list("(%s, (%d, %d, %d))" % (cq_row(r), c[0], c[1], c[2]) for r, c in m["conf"]))


def coq_case(case, out):
    d = parse(case, out)
    if d is None:
        return ("({| i_steps := []; i_probes := []; i_b := []; i_l := []; i_r := [] |}, {| o_steps := [{| so_state := []; so_count := 9; so_ix := [9] |}]; "
                "o_lr := {| mo_class := 7; mo_state := []; mo_conf := [] |}; o_rl := {| mo_class := 7; mo_state := []; mo_conf := [] |} |})")
    steps = cq_list("(%s, %s)" % (cq_stmt(s["stmt"]), cq_list(cq_op(o) for o in s["ops"])) for s in d["steps"])
    # COUNT(*) and the number of rows SELECT * emits must agree; a disagreement is encoded as an impossible count
    sobs = cq_list("{| so_state := %s; so_count := %d; so_ix := %s |}" % (
        cq_state(s["state"]), s["count"] if s["count"] == s["scan"] else 999999, cq_list(str(x) for x in s["ix"])) for s in d["steps"])
    inp = "{| i_steps := %s; i_probes := %s; i_b := %s; i_l := %s; i_r := %s |}" % (
        steps, cq_list(g.cq_cell(litval(pv)) for pv in PROBES), cq_state(d["B"]), cq_state(d["L"]), cq_state(d["R"]))
    return "(%s, {| o_steps := %s; o_lr := %s; o_rl := %s |})" % (inp, sobs, cq_mobs(d["m1"]), cq_mobs(d["m2"]))


def classify(case, out):
    d = parse(case, out)
    if d is None:
        return ["harness-error"]
    t = []
    if case["index"]:
        t.append("with-index")
    prev = []
    for s in d["steps"]:
        if any(c >= 2 for _, c in s["state"]):
            t.append("duplicates")
        if s["stmt"][0] == "del" and sum(1 for o in s["ops"]) >= 2:
            t.append("delete-many")
        if s["stmt"][0] == "del" and s["ops"]:
            t.append("card-to-zero")
        if s["stmt"][0] in ("dell", "updl") and case["index"]:
            nd = {tuple(r): c for r, c in s["state"]}
            for r, c in prev:
                left = nd.get(tuple(r), 0)
                if s["stmt"][0] == "dell" and c == 2 and left == 1:
                    t.append("keyless-index-2to1-partial-delete")
                if s["stmt"][0] == "updl" and s["stmt"][3] == 0 and s["stmt"][4] is None and c >= 2 and 0 < left < c and r[0] is not None:
                    t.append("keyless-index-null-after-partial-update")
        if s["stmt"][0] == "updl" and s["ops"]:
            t.append("update-limit")
        if s["stmt"][0] == "dell" and s["ops"]:
            t.append("delete-limit")
            matching = sum(c for r, c in prev if r[s["stmt"][1]] == s["stmt"][2])
            if matching > s["stmt"][3]:
                t.append("delete-limit-partial")
        if s["stmt"][0] == "upd" and s["ops"]:
            targets = {tuple(o[2]) for o in s["ops"]}
            if any(tuple(r) in targets for r, _ in prev) or len(s["ops"]) > len(targets):
                t.append("update-merge-rows")
        prev = s["state"]
    B, L, R = ({tuple(r): c for r, c in d[k]} for k in ("B", "L", "R"))
    for x in set(B) | set(L) | set(R):
        b, l, r = B.get(x, 0), L.get(x, 0), R.get(x, 0)
        if l != b and r != b:
            t.append("merge-conflict")
            if l == r:
                t.append("equal-change-conflict")
        elif l != b or r != b:
            t.append("one-sided-delta")
    for name in ("m1", "m2"):
        t.append(["merge-clean", "merge-conflict-reported", "internal-error"][d[name]["cls"]])
    return sorted(set(t))


def nontrivial(case, out):
    d = parse(case, out)
    return bool(d and any(c >= 2 for s in d["steps"] for _, c in s["state"]))


def shrink_candidates(case):
    for part in ("l", "r", "base"):
        for i in range(len(case[part])):
            c = copy.deepcopy(case)
            del c[part][i]
            yield with_steps(c)


def neighbours(case, rng):
    return list(shrink_candidates(case))[:40]


def search_cases(rng):
    out = []
    for _ in range(60):
        out.append(with_steps(gen_one(rng)))
    return out
