"""C41 — Only one process can write a database directory."""
import itertools

from lib import vlib
from lib.vlib import cq_bool, cq_list

ID = "C41"
HARNESS_PKG = "c41"
HARNESS_RUNNER = "c41"
COQ_TARGETS = ["theories/C41/Corr.vo"]
COQ_CORR_MODULE = "C41.Model C41.Spec C41.Corr"
COQ_CASE_TYPE = "C41.Corr.case"
COQ_CHECK = "C41.Corr.check_case"
COQ_MODEL_OBS = "(fun c => C41.Corr.model_obs (fst c))"
COQ_SHARD = 150
HARNESS_TIMEOUT = 1500
DESIGN_REF = "§5 C41"
TECHNIQUE = ("Coq proof (lock-protocol invariant over all schedules; read-only open path emits no mutating file operation for every "
             "directory content) + in-Coq correspondence against real OS processes sharing a directory through FileFactory/fslock")
LEVEL_TEXT = ("Proof (F/P): on the model of newJournalLock / the lazy loadThunk / bootstrapJournalWriter / loadJournalIndex / "
              "processJournalRecords / trueUpBackingManifest / ChunkJournal.Close it is proved for every schedule of open(fail-fast|fallback)/"
              "load/write/close over any number of processes and every initial directory that at most one process is in writer mode, that a "
              "second opener gets err_locked or read-only without touching a file, that every step of a read-only process leaves the directory "
              "unchanged and a write from it fails, and (ro_open_pure) that the read-only open path issues no mutating file operation for EVERY "
              "directory content (torn tail, stale/corrupt/missing index, stale manifest). Partial: flock(2) itself is modelled as a token. The "
              "model is tied to the code by running the same schedules on 2-3 real OS processes and comparing result codes, roots and per-file "
              "change masks inside Coq; the property monitor is evaluated on what the real processes returned.")
LEVEL_NOTE = ("Trusted: Coq kernel, Go harness + Python glue. Modelled, not verified: flock(2)/fslock (a token taken at open, before anything "
              "is read, released at close or when the lazy load fails), the OS file system, the 16 KiB bufio.Writer in front of journal.idx "
              "(sealed batches spill to disk during a read-write load, the rest at close), journal/index bytes (abstract records; byte-level "
              "parsing is C03/C04/C10), table-file set changes other than the first journal creation. There is no explicit read-only open "
              "mode at this layer: read-only is what NewLocalJournalingStoreWithOptions falls back to when the LOCK is held.")
THEOREMS = ["single_writer", "second_opener", "ro_open_pure", "ro_view_eq_rw_view", "ro_session_pure", "inv_step", "oracle_model"]
RULE = ("schedules of open(fail-fast|fallback, with/without lock timeout)/load/write/close over 2-3 real processes on a copy of a journaled "
        "store: all 20 interleavings of two open-write-close sessions x 4 mode pairs, a second-opener family, and random legal schedules; "
        "directory preparations: journal tail {clean, <4 bytes, garbage, zero padding, torn record, bad CRC, parseable records after noise}, "
        "journal.idx {fresh, stale, empty, torn lookup, torn meta, bad batch CRC, unknown tag, missing}, manifest {fresh, stale}, LOCK "
        "{present, missing}, small (no sealed index batch) and big (one sealed batch of >16384 lookups) stores; non-trivial = at least two "
        "processes have a step; distinct by case content")
ASSUMPTIONS = ["steps are issued one at a time (a step returns before the next is sent): orders, not overlaps, are explored",
               "no process other than the harness children touches the directory during a case",
               "fewer than 16384 chunks are written per session after load (no further index batch is sealed by a write)"]
REQUIRED_TAGS = ["second-opener-failfast-error", "second-opener-readonly", "ro-write-rejected", "ro-open-torn-tail",
                 "ro-open-stale-index", "ro-open-corrupt-index", "ro-open-missing-index", "ro-open-stale-manifest",
                 "writer-after-close", "rw-load-repairs-dir", "load-dataloss", "strace-ro-session", "three-procs", "tmpl:big",
                 "lazy-writer-holds-lock"]
EXPLANATION = ("codes: 0 ok, 1 opened read-write, 2 opened read-only, 3 err_locked, 4 err_readonly, 5 load error, 6 panic, 7 other error, "
               "8 hang, 9 step not applicable; mask bits: 1 manifest, 2 journal, 4 journal.idx, 8 LOCK, 16 anything else")

MAXN = 16384
BIGN = MAXN + 7          # filler chunks + chunk 1 in the sealed batch of the big template

TAILS = {"none": (0, False), "short": (3, False), "garbage": (13, False), "zeros": (64, False),
         "partial": (20, False), "badcrc": (40, False), "loss": (87, True)}
IDX_SMALL = ["fresh", "stale", "empty", "cut", "badtag", "missing"]
IDX_BIG = ["fresh", "stale", "empty", "cut", "cutmeta", "crc", "badtag", "missing"]


# --------------------------------------------------------------------------
# abstract directory for a preparation (what Model.dir the prepared bytes denote)
# --------------------------------------------------------------------------
def _idx(prep):
    k = prep.get("idx", "fresh")
    if k == "missing":
        return "None"
    if prep["tmpl"] == "small":
        b, t, p, bad = {"fresh": ([], 3, False, False), "stale": ([], 2, False, False), "empty": ([], 0, False, False),
                        "cut": ([], 2, True, False), "badtag": ([], 0, False, True)}[k]
    else:
        B = (BIGN, 0, 1, 1, True)
        b, t, p, bad = {"fresh": ([B], 1, False, False), "stale": ([B], 0, False, False), "empty": ([], 0, False, False),
                        "cut": ([B], 0, True, False), "cutmeta": ([], BIGN, True, False),
                        "crc": ([(BIGN, 0, 1, 1, False)], 1, False, False), "badtag": ([], 0, False, True)}[k]
    bs = cq_list("mkB %d %d %d %d %s" % (n, s, e, r, cq_bool(ok)) for n, s, e, r, ok in b)
    return "(Some (mkI %s %d %s %s))" % (bs, t, cq_bool(p), cq_bool(bad))


def abstract_dir(prep):
    if prep["tmpl"] == "small":
        segs = ["SChunks 1", "SRoot 1", "SChunks 1", "SRoot 2", "SChunks 1", "SRoot 3"]
        man = 3 if prep.get("man", "fresh") == "fresh" else 2
    else:
        segs = ["SChunks %d" % BIGN, "SRoot 1", "SChunks 1", "SRoot 2"]
        man = 2 if prep.get("man", "fresh") == "fresh" else 1
    tail, loss = TAILS[prep.get("tail", "none")]
    return "(mkD (Some (ManOk %d)) (Some (mkJ %s %d %s)) %s %s true [])" % (
        man, cq_list(segs), tail, cq_bool(loss), _idx(prep), cq_bool(prep.get("lock", "present") == "present"))


def _step(s):
    op = s["op"]
    if op == "open":
        return "(%d, SOpen %s)" % (s["p"], "MFailFast" if s["mode"] == "failfast" else "MFallback")
    if op == "load":
        return "(%d, SLoad)" % s["p"]
    if op == "write":
        return "(%d, SWrite %d)" % (s["p"], s["id"])
    return "(%d, SClose)" % s["p"]


def coq_case(case, out):
    inp = "(%s, %s)" % (abstract_dir(case["prep"]), cq_list(_step(s) for s in case["steps"]))
    o = out.get("obs")
    if o is None:
        # harness error: an observation no model agrees with and no oracle accepts
        return "(%s, mkObs [] 1)" % inp
    steps = cq_list("mkSO %d %d %d %s" % (s["code"], s["root"], s["mask"], cq_bool(s["pure"])) for s in o["steps"])
    sw = o.get("strace_writes", 0) if o.get("strace_ran") else 0
    return "(%s, mkObs %s %d)" % (inp, steps, 1 if sw < 0 else sw)      # unreadable trace counts as a failure


# --------------------------------------------------------------------------
# generator
# --------------------------------------------------------------------------
def _open(p, mode, skip=True):
    return {"p": p, "op": "open", "mode": mode, "skip": skip}


def _prep(tmpl="small", tail="none", idx="fresh", man="fresh", lock="present"):
    return {"tmpl": tmpl, "tail": tail, "idx": idx, "man": man, "lock": lock}


def rand_prep(rng, big_p=0.15):
    tmpl = "big" if rng.random() < big_p else "small"
    return _prep(tmpl,
                 rng.choice(list(TAILS)) if rng.random() < 0.7 else "none",
                 rng.choice(IDX_BIG if tmpl == "big" else IDX_SMALL) if rng.random() < 0.7 else "fresh",
                 "stale" if rng.random() < 0.25 else "fresh",
                 "missing" if rng.random() < 0.1 else "present")


def interleavings(a, b):
    n, m = len(a), len(b)
    for pos in itertools.combinations(range(n + m), n):
        out, ia, ib = [], 0, 0
        for i in range(n + m):
            if i in pos:
                out.append(a[ia]); ia += 1
            else:
                out.append(b[ib]); ib += 1
        yield out


def second_opener(rng, prep, holder_loads, nproc=2, strace=-1, reopen=True):
    """P0 takes the LOCK (lazily: without bootstrapping, unless holder_loads); P1 tries fail-fast, then falls back to
    read-only, reads, tries to write, closes; P0 then loads (repairing the directory), writes, closes; P1 becomes the writer."""
    wid = iter(range(10, 99))
    st = [_open(0, rng.choice(["fallback", "failfast"]), rng.random() < 0.7)]
    if holder_loads:
        st.append({"p": 0, "op": "load"})
        if rng.random() < 0.5:
            st.append({"p": 0, "op": "write", "id": next(wid)})
    st += [_open(1, "failfast", rng.random() < 0.8), _open(1, "fallback", rng.random() < 0.8), {"p": 1, "op": "load"},
           {"p": 1, "op": "write", "id": next(wid)}]
    if nproc == 3:
        st += [_open(2, "fallback", True), {"p": 2, "op": "write", "id": next(wid)}, _open(2, "failfast", True)]
    st += [{"p": 1, "op": "close"}, {"p": 0, "op": "load"}, {"p": 0, "op": "write", "id": next(wid)}]
    if nproc == 3:
        st += [{"p": 2, "op": "load"}, {"p": 2, "op": "close"}]
    st += [{"p": 0, "op": "close"}]
    if reopen:
        st += [_open(1, rng.choice(["fallback", "failfast"]), True), {"p": 1, "op": "load"},
               {"p": 1, "op": "write", "id": next(wid)}, {"p": 1, "op": "close"}]
    return {"prep": prep, "steps": st, "nproc": nproc, "strace": strace}


def random_schedule(rng, prep, nproc, n):
    is_open = [False] * nproc
    st = []
    wid = 10
    for _ in range(n):
        p = rng.randrange(nproc)
        if not is_open[p]:
            if rng.random() < 0.08:
                st.append({"p": p, "op": rng.choice(["load", "close"])})      # not applicable: code 9 on both sides
                continue
            st.append(_open(p, rng.choice(["failfast", "fallback", "fallback"]), rng.random() < 0.85))
            is_open[p] = True      # may be refused (fail-fast): later steps are then "not applicable", which is fine
        else:
            op = rng.choice(["load", "write", "write", "close", "close"])
            if op == "write":
                st.append({"p": p, "op": "write", "id": wid}); wid += 1
            else:
                st.append({"p": p, "op": op})
            if op == "close":
                is_open[p] = False
    return {"prep": prep, "steps": st, "nproc": nproc, "strace": -1}


def gen_cases(rng, tier):
    cases = []
    # 1. all interleavings of two open/write/close sessions x mode pairs
    modes = ["failfast", "fallback"]
    for ma in modes:
        for mb in modes:
            a = [_open(0, ma), {"p": 0, "op": "write", "id": 10}, {"p": 0, "op": "close"}]
            b = [_open(1, mb), {"p": 1, "op": "write", "id": 11}, {"p": 1, "op": "close"}]
            for il in interleavings(a, b):
                prep = _prep() if tier == "quick" and rng.random() < 0.6 else rand_prep(rng, 0.05)
                cases.append({"prep": prep, "steps": [dict(s) for s in il], "nproc": 2, "strace": -1})
    # 2. second-opener family over every preparation axis
    for tail in TAILS:
        cases.append(second_opener(rng, _prep(tail=tail), False))
    for idx in IDX_SMALL:
        cases.append(second_opener(rng, _prep(idx=idx), False))
    for idx in IDX_BIG:
        cases.append(second_opener(rng, _prep("big", idx=idx, tail=rng.choice(["none", "garbage"])), False))
    cases.append(second_opener(rng, _prep(man="stale"), False))
    cases.append(second_opener(rng, _prep("big", man="stale", tail="partial"), False))
    cases.append(second_opener(rng, _prep(lock="missing"), False))
    cases.append(second_opener(rng, _prep(tail="garbage", idx="stale"), True))
    cases.append(second_opener(rng, _prep(tail="zeros", idx="cut", man="stale"), False, nproc=3))
    cases.append(second_opener(rng, _prep("big", tail="badcrc", idx="crc"), False, nproc=3))
    # 3. read-only sessions under strace (write-class system calls on the directory)
    straced = [_prep(tail="garbage"), _prep(idx="stale", man="stale"), _prep("big", idx="crc", tail="partial"), _prep(idx="missing", tail="loss")]
    if tier != "quick":
        straced += [rand_prep(rng, 0.3) for _ in range(40)]
    for pr in straced:
        cases.append(second_opener(rng, pr, False, strace=1, reopen=False))    # P1 stays read-only for the whole case
    # 4. random legal schedules
    n = 90 if tier == "quick" else 4000
    for _ in range(n):
        nproc = rng.choice([2, 2, 3])
        cases.append(random_schedule(rng, rand_prep(rng), nproc, rng.randint(5, 12)))
        if rng.random() < 0.3:
            cases.append(second_opener(rng, rand_prep(rng), rng.random() < 0.4, nproc=rng.choice([2, 3])))
    return cases


# --------------------------------------------------------------------------
# classification
# --------------------------------------------------------------------------
def classify(case, out):
    o = out.get("obs")
    if o is None:
        return ["harness-error"]
    prep = case["prep"]
    t = ["tmpl:" + prep["tmpl"], "tail:" + prep.get("tail", "none"), "idx:" + prep.get("idx", "fresh"),
         "man:" + prep.get("man", "fresh"), "lock:" + prep.get("lock", "present")]
    if case["nproc"] >= 3 and len({s["p"] for s in case["steps"]}) >= 3:
        t.append("three-procs")
    st = {}                # p -> 'rw' | 'ro'
    loaded = set()
    repaired = False       # a lock holder has bootstrapped: tail truncated, index rebuilt, manifest trued-up
    closed_writer = False
    for s, r in zip(case["steps"], o["steps"]):
        p, op, c = s["p"], s["op"], r["code"]
        if c == 6:
            t.append("panic")
        if c == 8:
            t.append("hang")
        if op == "open" and p not in st:
            others_rw = [q for q in st if st[q] == "rw"]
            if c == 3:
                t.append("second-opener-failfast-error")
            elif c == 2:
                t.append("second-opener-readonly")
                st[p] = "ro"
                if any(q not in loaded for q in others_rw):
                    t.append("lazy-writer-holds-lock")
            elif c == 1:
                st[p] = "rw"
                if closed_writer:
                    t.append("writer-after-close")
        elif op in ("load", "write") and p in st:
            first = p not in loaded
            loaded.add(p)
            if st[p] == "ro":
                if op == "write" and c == 4:
                    t.append("ro-write-rejected")
                if first and not repaired:
                    if prep.get("tail", "none") != "none":
                        t.append("ro-open-torn-tail")
                    if prep.get("idx") in ("stale", "cut", "cutmeta", "empty"):
                        t.append("ro-open-stale-index")
                    if prep.get("idx") in ("crc", "badtag"):
                        t.append("ro-open-corrupt-index")
                    if prep.get("idx") == "missing":
                        t.append("ro-open-missing-index")
                    if prep.get("man") == "stale":
                        t.append("ro-open-stale-manifest")
            else:
                if first and c == 0:
                    repaired = True
                    if r["mask"]:
                        t.append("rw-load-repairs-dir")
            if c == 5:
                t.append("load-dataloss")
                if st[p] == "rw":
                    del st[p]; st[p] = "failed"
        elif op == "close" and p in st:
            if st[p] == "rw":
                closed_writer = True
            del st[p]
            loaded.discard(p)
        elif c == 9:
            t.append("not-applicable-step")
    if o.get("strace_ran"):
        t.append("strace-ro-session")
    return sorted(set(t))


def nontrivial(case, out):
    return len({s["p"] for s in case["steps"]}) >= 2


# --------------------------------------------------------------------------
# failure handling
# --------------------------------------------------------------------------
def match_known(finding, case, out):
    """A known finding names the preparation / step pattern it needs: {"match": {"prep": {...}, "op": "load", "code": 6}}."""
    m = finding.get("match") or {}
    for k, v in (m.get("prep") or {}).items():
        if case["prep"].get(k) != v:
            return False
    o = out.get("obs")
    if "op" in m and o is not None:
        return any(s["op"] == m["op"] and r["code"] == m.get("code", r["code"]) and (r["mask"] != 0 or not r["pure"] or "code" in m)
                   for s, r in zip(case["steps"], o["steps"]))
    return bool(m)


def shrink_candidates(case):
    st = case["steps"]
    for i in range(len(st)):
        yield dict(case, steps=st[:i] + st[i + 1:])
    for k, dflt in (("tail", "none"), ("idx", "fresh"), ("man", "fresh"), ("lock", "present"), ("tmpl", "small")):
        if case["prep"].get(k, dflt) != dflt:
            pr = dict(case["prep"]); pr[k] = dflt
            if pr["tmpl"] == "small" and pr.get("idx") in ("cutmeta", "crc"):
                continue
            yield dict(case, prep=pr)
    if case.get("strace", -1) >= 0:
        yield dict(case, strace=-1)


def neighbours(case, rng):
    out = []
    st = case["steps"]
    for i in range(len(st) - 1):
        if st[i]["p"] != st[i + 1]["p"]:
            out.append(dict(case, steps=st[:i] + [st[i + 1], st[i]] + st[i + 2:]))
    for i, s in enumerate(st):
        if s["op"] == "open":
            for mode in ("failfast", "fallback"):
                for skip in (True, False):
                    out.append(dict(case, steps=st[:i] + [dict(s, mode=mode, skip=skip)] + st[i + 1:]))
    for tail in TAILS:
        out.append(dict(case, prep=dict(case["prep"], tail=tail)))
    for idx in (IDX_BIG if case["prep"]["tmpl"] == "big" else IDX_SMALL):
        out.append(dict(case, prep=dict(case["prep"], idx=idx)))
    out.append(dict(case, prep=dict(case["prep"], man="stale")))
    rng.shuffle(out)
    return out[:60]


def search_cases(rng):
    return [second_opener(rng, _prep(tail=t, idx=i), False) for t in ("garbage", "partial") for i in ("stale", "missing", "badtag")]
