"""C31 — Cherry-pick, revert and rebase obey their merge definitions."""
from lib.vlib import cq_list

ID = "C31"
HARNESS_PKG = "c31"
HARNESS_RUNNER = "c31"
COQ_TARGETS = ["theories/C31/Corr.vo"]
COQ_CORR_MODULE = "C31.Model C31.Corr"
COQ_CASE_TYPE = "C31.Corr.case"
COQ_CHECK = "C31.Corr.check_case"
COQ_MODEL_OBS = "(fun c => C31.Corr.model_obs (fst c))"
DESIGN_REF = "§5 C31"
TECHNIQUE = "Coq proof (algebraic laws of the key-wise/cell-wise three-way merge for every map; rebase = fold of cherry-picks by induction on the plan) + in-Coq correspondence through SQL"
LEVEL_TEXT = ("Proof (F/M): on the model, cherry-pick = merge3(parent C, HEAD, C), revert = merge3(C, HEAD, parent C); merge3 is characterised key by key for "
              "every three maps, the laws merge3 b b x = x, merge3 b x b = x, merge3 b x x = x hold as equalities of canonical maps, hence revert of HEAD's own "
              "commit = parent data and cherry-pick onto the own parent = the commit's data; every rebase plan (pick/reword/squash/fixup/drop, any length) ends "
              "with the data of the fold of cherry-picks of its kept commits and conflicts exactly when the fold does. The model is tied to dolt by running "
              "dolt_cherry_pick / dolt_revert / dolt_rebase -i (edited dolt_rebase table) on generated commit trees and comparing inside Coq.")
LEVEL_NOTE = ("Trusted: Coq kernel, Go harness + Python glue. Modelled, not verified: merge.MergeRoots is modelled by a small key-wise / cell-wise merge over "
              "(table, pk) -> cells with integer/NULL cells. Round 2: conflict policies (dolt_conflicts_resolve --ours/--theirs + --continue, --abort) for cherry-pick, "
              "revert and rebase are modelled and proved (merge_proc_spec, abort_restores, rebase2_is_fold); ADD/DROP COLUMN in the picked/reverted commit is modelled "
              "(merge in the merged schema, dropped-vs-modified conflicts, column order not compared) and tied by the correspondence, its algebraic laws are not yet "
              "proved (visible as comments in C31/Proofs.v). Not modelled: constraint violations, HEADs whose schema diverged from the merge base, keyless tables, "
              "foreign keys, commit metadata, manual cell-level conflict resolution (only whole-row --ours/--theirs).")
THEOREMS = ["get_merge3", "merge3_is_merge", "merge3_base_left_eq", "merge3_base_right_eq", "merge3_same_eq", "cherry_pick_is_merge", "revert_is_merge",
            "revert_latest", "cherry_pick_on_parent", "rebase_is_fold", "squash_only_boundaries",
            "get_resolved", "merge_proc_spec", "abort_restores", "rebase2_is_fold", "rebase_abort_restores", "smerge_proc_same_schema",
            "oracle_on_model_partial (commit trees of one schema, incl. operations with unrelated uncommitted work: oracle_op_dirty_model; schema-changing commits: correspondence only)"]
KNOWN_KEY = "schema-merge:restored-column-value-lost-when-equal-to-cell-at-same-position"


def match_known(finding, case, out):
    """Known finding: reverting a DROP COLUMN on a HEAD that set another column of the same row to the value the dropped column had
    loses the restored value (cells compared by tuple position after the column order changed).  Recognised by: a revert whose
    result has t1's columns in an order different from the id order, and a NULL where the parent commit had a value."""
    if finding.get("key") != KNOWN_KEY:
        return False
    o = out.get("obs")
    if not o:
        return False
    for op, x in zip(case["ops"], o["ops"]):
        cols = x.get("cols1") or []
        if op["kind"] == "rv" and x["kind"] == "ok" and cols != sorted(cols, key=lambda c: COLID[c]):
            return True
    return False
RULE = ("round 3: reverts / cherry-picks with unrelated uncommitted work (table t2 edited unstaged and / or an untracked table) observing the COMMITTED rows (AS OF HEAD), the working rows and dolt_status; "
        "rebase plans written with fractional rebase_order values (x.7 x.1 x.3 x.25 ...) so that conflict pauses + --continue fall on such steps; commit trees of 4-8 commits over two tables (pk, a, b) with values in {NULL,0..3} and keys 1..4, every commit changing 1-3 cells/rows of its parent "
        "(so edits overlap and conflict often); per tree 6-9 operations: cherry-pick / revert of a random commit on a random head (biased to the algebraic "
        "cases head = parent(c) and c = head) and rebase plans over the commits tip..onto with random actions, order changes and dropped steps; "
        "non-trivial = at least one operation succeeded with a content different from its head; distinct by case JSON")
ASSUMPTIONS = ["schema changes: only the picked / reverted commit changes the schema of t1 relative to the merge base (ADD COLUMN int / DROP COLUMN); HEAD has the merge base's schema; "
               "column order is not compared (columns sorted by id); rebase plans are generated over commits of one schema",
               "operations name commits that have a parent inside the generated tree (the root commit, whose parent is dolt's schema-less initial commit, is never cherry-picked or reverted)",
               "every generated commit differs from its parent (dolt refuses to create / cherry-pick empty commits by default)"]
REQUIRED_TAGS = ["dirty-rv-ok", "dirty-rv-refused", "dirty-cp-refused", "dirty-untracked-ok", "dirty-t2-ok", "rb-pause-fractional-order", "cp-resolved", "rv-resolved", "rb-resolved", "cp-aborted", "rv-aborted", "rb-aborted", "resolved-ours", "resolved-theirs",
                 "schema-cp-ok", "schema-rv-ok", "schema-cp-conflict", "cp-ok", "cp-conflict", "cp-nochange", "cp-on-parent", "rv-ok", "rv-conflict", "rv-latest", "rb-ok", "rb-conflict", "rb-invalid",
                 "rb-squash", "rb-fixup", "rb-drop", "rb-reword", "rb-reorder", "rb-became-empty", "cellwise-merge"]

NT = 2
KEYS = [1, 2, 3, 4]
VALS = [None, 0, 1, 2, 3]
ACTIONS = ["pick", "pick", "pick", "squash", "fixup", "drop", "reword"]


def _mutate(rng, rows):
    """rows: dict (t,k) -> [a,b]; returns a changed copy (guaranteed different)."""
    cur = {k: list(v) for k, v in rows.items()}
    for _ in range(40):
        new = {k: list(v) for k, v in cur.items()}
        for _ in range(rng.choice([1, 1, 2, 3])):
            t = rng.choice([1, 1, 1, 2]); k = rng.choice(KEYS)
            r = rng.random()
            if (t, k) in new:
                if r < 0.2:
                    del new[(t, k)]
                else:
                    i = rng.randrange(2)
                    new[(t, k)][i] = rng.choice(VALS)
            else:
                new[(t, k)] = [rng.choice(VALS), rng.choice(VALS)]
        if new != rows:
            return new
    new = dict(cur); new[(2, 9)] = [0, 0] if (2, 9) not in new else None
    if new[(2, 9)] is None:
        del new[(2, 9)]
    return new


def _rows_json(rows):
    return [{"t": t, "k": k, "c": list(v)} for (t, k), v in sorted(rows.items())]


def _chain(parents, tip, onto):
    """commits reachable from tip but not from onto, oldest first (tree without merges)."""
    anc = set()
    x = onto
    while x >= 0:
        anc.add(x); x = parents[x]
    out = []
    x = tip
    while x >= 0 and x not in anc:
        out.append(x); x = parents[x]
    return list(reversed(out))


COLID = {"a": 1, "b": 2, "d": 3}


def _widen(rows, old_cols, new_cols, rng):
    """rows of t1 re-expressed in new_cols (dropped columns vanish, new columns NULL or a value)"""
    out = {}
    for (t, k), v in rows.items():
        if t != 1:
            out[(t, k)] = list(v)
            continue
        cur = dict(zip(old_cols, v))
        out[(t, k)] = [cur[c] if c in cur else (rng.choice(VALS) if rng.random() < 0.5 else None) for c in new_cols]
    return out


def gen_schema_case(rng):
    """small tree where some commits ALTER t1 (add column d / drop column b); only cherry-pick / revert ops"""
    n = rng.randint(3, 6)
    parents = [-1]
    cols = [["a", "b"]]
    contents = [{}]
    for _ in range(rng.randint(2, 4)):
        contents[0][(rng.choice([1, 1, 2]), rng.choice(KEYS))] = [rng.choice(VALS), rng.choice(VALS)]
    for i in range(1, n):
        p = i - 1 if rng.random() < 0.5 else rng.randrange(i)
        parents.append(p)
        pc = cols[p]
        r = rng.random()
        nc = list(pc)
        if r < 0.35 and "d" not in pc:
            nc = pc + ["d"]
        elif r < 0.6 and "b" in pc:
            nc = [c for c in pc if c != "b"]
        if nc != pc:
            new = _widen(contents[p], pc, nc, rng)
            if rng.random() < 0.4:
                new = _mutate_s(rng, new, len(nc))
        else:
            new = _mutate_s(rng, contents[p], len(pc))
        cols.append(nc)
        contents.append(new)
    ops = []
    for _ in range(rng.randint(4, 7)):
        c = rng.randrange(1, n)
        kind = rng.choice(["cp", "rv"])
        # HEAD has the schema of the merge base (parent of c for cherry-pick, c itself for revert): only the
        # picked / reverted commit changes the schema (see ASSUMPTIONS)
        want = cols[parents[c]] if kind == "cp" else cols[c]
        cands = [h for h in range(n) if cols[h] == want]
        if kind == "cp":
            hd = parents[c] if rng.random() < 0.3 else rng.choice(cands)
        else:
            hd = c if rng.random() < 0.3 else rng.choice(cands)
        ops.append({"kind": kind, "head": hd, "c": c, "res": rng.choice(["", "", "abort"])})
    return {"commits": [{"parent": parents[i], "rows": _rows_json(contents[i]), "cols1": cols[i]} for i in range(n)], "ops": ops}


def _mutate_s(rng, rows, w1):
    for _ in range(40):
        new = {k: list(v) for k, v in rows.items()}
        for _ in range(rng.choice([1, 1, 2])):
            t = rng.choice([1, 1, 1, 2]); k = rng.choice(KEYS)
            w = w1 if t == 1 else 2
            if (t, k) in new:
                if rng.random() < 0.2:
                    del new[(t, k)]
                else:
                    new[(t, k)][rng.randrange(w)] = rng.choice(VALS)
            else:
                new[(t, k)] = [rng.choice(VALS) for _ in range(w)]
        if new != rows:
            return new
    new = dict(rows); new[(2, 9)] = [0, 0]
    return new


RES = ["", "", "ours", "theirs", "abort"]


def gen_one(rng):
    n = rng.randint(4, 8)
    parents = [-1]
    contents = [{}]
    for _ in range(rng.randint(2, 5)):
        contents[0][(rng.choice([1, 1, 2]), rng.choice(KEYS))] = [rng.choice(VALS), rng.choice(VALS)]
    for i in range(1, n):
        p = i - 1 if rng.random() < 0.6 else rng.randrange(i)
        parents.append(p)
        new = None
        if p != i - 1 and i >= 2 and rng.random() < 0.45:
            # replay the delta of an earlier commit j on this branch: rebasing j onto here makes it empty
            j = rng.randrange(1, i)
            old, cur = contents[parents[j]], contents[j]
            new = {k: list(v) for k, v in contents[p].items()}
            for k in set(old) | set(cur):
                if old.get(k) != cur.get(k):
                    if k in cur:
                        new[k] = list(cur[k])
                    else:
                        new.pop(k, None)
            if new == contents[p]:
                new = None
        contents.append(new if new is not None else _mutate(rng, contents[p]))
    ops = []
    for _ in range(rng.randint(6, 9)):
        r = rng.random()
        if r < 0.08:
            # revert / cherry-pick with unrelated uncommitted work around: table 2 edited (unstaged) and / or an untracked table
            c = rng.randrange(1, n)
            kind = "rv" if rng.random() < 0.75 else "cp"
            hd = c if (kind == "rv" and rng.random() < 0.4) else rng.randrange(n)
            op = {"kind": kind, "head": hd, "c": c, "res": "", "hasdirty": False, "untracked": rng.random() < 0.5, "dirty": []}
            if rng.random() < 0.75 or not op["untracked"]:
                cur2 = sorted((k, v) for (t, k), v in contents[hd].items() if t == 2)
                for _ in range(20):
                    new2 = {}
                    for k in rng.sample(KEYS, rng.randint(0, 3)):
                        new2[k] = [rng.choice(VALS), rng.choice(VALS)]
                    if sorted(new2.items()) != cur2:
                        break
                else:
                    new2 = {9: [0, 0]}
                op["hasdirty"] = True
                op["dirty"] = [{"t": 2, "k": k, "c": v} for k, v in sorted(new2.items())]
            ops.append(op)
        elif r < 0.3:
            c = rng.randrange(1, n)
            hd = parents[c] if rng.random() < 0.25 else rng.randrange(n)
            ops.append({"kind": "cp", "head": hd, "c": c, "res": rng.choice(RES)})
        elif r < 0.6:
            c = rng.randrange(1, n)
            hd = c if rng.random() < 0.3 else rng.randrange(n)
            ops.append({"kind": "rv", "head": hd, "c": c, "res": rng.choice(RES)})
        else:
            for _ in range(10):
                tip = rng.randrange(1, n); onto = rng.randrange(n)
                ch = _chain(parents, tip, onto)
                if ch and 0 not in ch:
                    break
            else:
                continue
            steps = [{"a": rng.choice(ACTIONS), "c": c} for c in ch]
            if rng.random() < 0.7 and steps:
                steps[0]["a"] = rng.choice(["pick", "reword"])
            if rng.random() < 0.3 and len(steps) > 1:
                i = rng.randrange(len(steps) - 1); steps[i], steps[i + 1] = steps[i + 1], steps[i]
            if rng.random() < 0.2 and len(steps) > 1:
                del steps[rng.randrange(len(steps))]
            if rng.random() < 0.8:
                for st, o in zip(steps, _orders(rng, len(steps))):
                    st["o"] = o
            ops.append({"kind": "rb", "head": tip, "c": 0, "onto": onto, "plan": steps, "res": rng.choice(RES)})
    return {"commits": [{"parent": parents[i], "rows": _rows_json(contents[i])} for i in range(n)], "ops": ops}


def gen_cases(rng, tier):
    n = 90 if tier == "quick" else 3000
    return [gen_one(rng) for _ in range(n)] + [gen_schema_case(rng) for _ in range(n // 2)]


# ---- Coq printing ----
def _cell(c):
    return "None" if c is None else "Some %d" % c


def _content(rows):
    return cq_list("((%d, %d), %s)" % (r["t"], r["k"], cq_list(_cell(c) for c in r["c"])) for r in rows)


ACT = {"pick": "Pick", "reword": "Reword", "squash": "Squash", "fixup": "Fixup", "drop": "Drop"}
FRACS = ["7", "1", "3", "25", "5", "0", "75", "9"]


def _orders(rng, n):
    """ascending rebase_order values with fractional parts like x.7, x.1, x.3, x.25 (most are not exactly representable in binary)"""
    out, cur = [], 0
    for _ in range(n):
        cur += rng.choice([1, 1, 2])
        f = rng.choice(FRACS)
        out.append("%d.%s" % (cur, f) if f != "0" else str(cur))
    return out


KIND = {"refused": 7, "ok": 0, "conflict": 1, "nochange": 2, "invalid": 3, "err": 4, "resolved": 5, "aborted": 6, "schemaconflict": 1}
MODE = {"": "Stop", None: "Stop", "ours": "(Resolve Ours)", "theirs": "(Resolve Theirs)", "abort": "Abort"}


def _schema(cols):
    return cq_list(str(COLID[c]) for c in (cols or ["a", "b"]))


def _kind(o):
    if o["kind"] == "err" and "invalid rebase plan" in o.get("msg", ""):
        return "invalid"
    return o["kind"]


def _op(o):
    m = MODE[o.get("res", "")]
    if o.get("hasdirty") or o.get("untracked"):
        d2 = ("(Some %s)" % _content(o["dirty"])) if o.get("hasdirty") else "None"
        return "%s %d %d %s %s" % ("OCpD" if o["kind"] == "cp" else "ORvD", o["head"], o["c"], d2, "true" if o.get("untracked") else "false")
    if o["kind"] == "cp":
        return "OCp %d %d %s" % (o["head"], o["c"], m)
    if o["kind"] == "rv":
        return "ORv %d %d %s" % (o["head"], o["c"], m)
    return "ORb %d %d %s %s" % (o["head"], o["onto"], cq_list("(%s, %d)" % (ACT[s["a"]], s["c"]) for s in o["plan"]), m)


def _perm(rows, order):
    return [dict(r, c=[r["c"][i] for i in order]) if r["t"] == 1 else r for r in rows]


def _canon_cols(x):
    """column order is presentation only: sort t1's columns by id and permute the cells accordingly"""
    cols = x.get("cols1") or ["a", "b"]
    order = sorted(range(len(cols)), key=lambda i: COLID[cols[i]])
    if order == list(range(len(cols))):
        return x
    return dict(x, cols1=[cols[i] for i in order], rows=_perm(x["rows"], order), work=_perm(x.get("work") or [], order))


def _obs1(x):
    x = _canon_cols(x)
    k = _kind(x)
    final = k in ("ok", "resolved", "aborted", "refused")
    work = [r for r in (x.get("work") or []) if r["t"] in (1, 2)]
    return "{| k_kind := %d; k_schema := %s; k_data := %s; k_new := %d; k_restored := %s; k_pauses := %d; k_work := %s; k_dirty_kept := %s |}" % (
        KIND[k], _schema(x.get("cols1")) if final else "[]", _content(x["rows"]) if final else "[]",
        max(0, x["newcnt"]) if final else 0, "true" if x.get("restored") else "false", x.get("pauses", 0) if final else 0,
        _content(work) if final else "[]", "true" if (final and x.get("dirtykept")) else "false")


def coq_case(case, out):
    cs = cq_list("(%s, %s, %s)" % ("None" if c["parent"] < 0 else "Some %d" % c["parent"], _schema(c.get("cols1")), _content(c["rows"])) for c in case["commits"])
    ops = cq_list(_op(o) for o in case["ops"])
    o = out.get("obs")
    if o is None or out.get("err") or out.get("panic") or len(o.get("ops") or []) != len(case["ops"]):
        obs = "[]" if case["ops"] else "[{| k_kind := 9; k_schema := []; k_data := []; k_new := 0; k_restored := false; k_pauses := 0; k_work := []; k_dirty_kept := false |}]"
    else:
        obs = cq_list(_obs1(x) for x in o["ops"])
    return "((%s, %s), %s)" % (cs, ops, obs)


def classify(case, out):
    o = out.get("obs")
    if o is None or out.get("err") or out.get("panic"):
        return ["harness-error"]
    tags = []
    par = [c["parent"] for c in case["commits"]]
    rows = [c["rows"] for c in case["commits"]]
    sch = any(c.get("cols1") not in (None, ["a", "b"]) for c in case["commits"])
    for op, r in zip(case["ops"], o["ops"]):
        k = _kind(r)
        tags.append("%s-%s" % (op["kind"], k))
        if k == "resolved":
            tags.append("resolved-" + op.get("res", ""))
        if op.get("hasdirty") or op.get("untracked"):
            tags.append("dirty-%s-%s" % (op["kind"], k))
            if op.get("untracked") and k == "ok":
                tags.append("dirty-untracked-ok")
            if op.get("hasdirty") and k == "ok":
                tags.append("dirty-t2-ok")
        if op["kind"] == "rb" and r.get("pauses", 0) > 0 and any("." in st.get("o", "") for st in op["plan"]):
            tags.append("rb-pause-fractional-order")
        if sch:
            tags.append("schema-%s-%s" % (op["kind"], k))
        if op["kind"] == "cp" and par[op["c"]] == op["head"]:
            tags.append("cp-on-parent")
        if op["kind"] == "rv" and op["c"] == op["head"]:
            tags.append("rv-latest")
        if op["kind"] == "rb":
            for s in op["plan"]:
                tags.append("rb-" + s["a"])
            ch = _chain(par, op["head"], op["onto"])
            if [s["c"] for s in op["plan"]] != [c for c in ch if c in [s["c"] for s in op["plan"]]]:
                tags.append("rb-reorder")
            if k == "ok" and r["newcnt"] < sum(1 for s in op["plan"] if s["a"] in ("pick", "reword")):
                tags.append("rb-became-empty")
        if op["kind"] in ("cp", "rv") and k == "ok" and not sch:
            # a row present in head, commit and parent with all three different: merged cell-wise
            hd = {(x["t"], x["k"]): x["c"] for x in rows[op["head"]]}
            cc = {(x["t"], x["k"]): x["c"] for x in rows[op["c"]]}
            pp = {(x["t"], x["k"]): x["c"] for x in rows[par[op["c"]]]}
            for key in hd:
                if key in cc and key in pp and hd[key] != cc[key] and hd[key] != pp[key] and cc[key] != pp[key]:
                    tags.append("cellwise-merge")
    return sorted(set(tags))


def nontrivial(case, out):
    o = out.get("obs")
    return bool(o) and any(x["kind"] in ("ok", "resolved") for x in o.get("ops", []))


def shrink_candidates(case):
    import os
    if os.environ.get("VERIF_NOSHRINK"):
        return
    ops = case["ops"]
    for i in range(len(ops)):
        yield {"commits": case["commits"], "ops": ops[:i] + ops[i + 1:]}
    if len(ops) == 1 and ops[0]["kind"] == "rb":
        pl = ops[0]["plan"]
        for i in range(len(pl)):
            yield {"commits": case["commits"], "ops": [dict(ops[0], plan=pl[:i] + pl[i + 1:])]}
    # drop a leaf commit not referenced
    n = len(case["commits"])
    used = set()
    for o in ops:
        used.update([o.get("head", 0), o.get("c", 0), o.get("onto", 0)] + [s["c"] for s in o.get("plan", [])])
    last = n - 1
    if last > 0 and last not in used and all(c["parent"] != last for c in case["commits"]):
        yield {"commits": case["commits"][:-1], "ops": ops}


def neighbours(case, rng):
    out = []
    n = len(case["commits"])
    for _ in range(60):
        c = rng.randrange(1, n)
        out.append({"commits": case["commits"], "ops": [{"kind": rng.choice(["cp", "rv"]), "head": rng.randrange(n), "c": c, "res": rng.choice(RES)}]})
    return out


def search_cases(rng):
    return [gen_one(rng) for _ in range(30)] + [gen_schema_case(rng) for _ in range(10)]
