"""C21 — A commit and its working-set update land together."""
from lib.vlib import cq_list
from props import c20

ID = "C21"
HARNESS_PKG = "c21"
HARNESS_RUNNER = "c21"
COQ_TARGETS = ["theories/C21/Corr.vo"]
COQ_CORR_MODULE = "Base.Str C20.Model C20.Spec C20.Corr C21.Model C21.Spec C21.Corr"
COQ_CASE_TYPE = "C21.Corr.case"
COQ_CHECK = "C21.Corr.check_case"
COQ_MODEL_OBS = "(fun c => C21.Corr.model_obs (fst c))"
COQ_SHARD = 120
DESIGN_REF = "§5 C21"
TECHNIQUE = ("Coq proof (CommitWithWorkingSet is one map edit applied by one root CAS in C20's machine: for every schedule and every crash prefix the "
             "(head, working set) pair is the initial one or the pair of ONE successful call) + in-Coq correspondence against real datas.Database handles")
LEVEL_TEXT = ("Proof (F/M, correspondence P): pair_atomic — for every schedule of C20's small-step machine, every client program, and every crash point "
              "(the system stopped after any number of steps; the persisted root is the single CAS'd word), the (branch head, working set) pair of a branch "
              "written only through CommitWithWorkingSet is the initial pair or the pair installed by one successful call; root_changes_by_one_op — with "
              "arbitrary other writers every step leaves the root unchanged or applies exactly one operation whose condition held, and for "
              "CommitWithWorkingSet that operation sets both entries (cws_sets_both). Tied to the code by sequential and concurrent histories over several "
              "Database handles, reading head and working set from the same store root after every call / during the batch.")
LEVEL_NOTE = ("Trusted: Coq kernel, Go harness + Python glue. Modelled, not verified: the chunk store's root CAS is one atomic, durable step (MemoryStorage "
              "mutex; NBS manifest update: C02/C03 carry the byte-level crash semantics), so a crash is a prefix of the schedule; process kills are not "
              "injected by this check; crash_recovered_pair_atomic carries pair atomicity to every byte-level crash point given the C02/C03 statement "
              "(recovered root = root of a prefix of the root writes) as an explicit hypothesis. That the real CommitWithWorkingSet performs a single db.update with both editor updates was read off "
              "database_common.go:788-813 and is what the sampled roots test.")
THEOREMS = ["pair_atomic", "root_changes_by_one_op", "cws_sets_both", "oracle_model_obs", "crash_recovered_pair_atomic"]
RULE = ("C20's histories biased to CommitWithWorkingSet on branch 10 / working set 20 with stale and fresh handles, other writers (commit, set-head, "
        "delete, working-set update, tag) mostly on branch 11 / 21 / tags; sequential 4-12 calls by 2-3 handles, concurrent batches of 2-4; "
        "plus doltdb-level histories: DoltDB.CommitWithWorkingSet on heads with no working set yet (fresh repository's main, a branch whose head was "
        "set by SetHeadToCommit) and with one, a commit hook reading the (head, working set) pairs from one store root at EVERY visible dataset "
        "update; non-trivial = at least one CommitWithWorkingSet took effect")
ASSUMPTIONS = c20.ASSUMPTIONS
REQUIRED_TAGS = ["seq", "conc", "commitws-ok", "lock", "merge", "only-cws-pair", "mixed-writers", "retry-path", "conc-two-cws", "samples>1", "nbs",
                 "ddb-first-commit-no-ws", "ddb-commit-with-ws", "ddb-rawbranch"]

NAMES = c20.NAMES


def gen_op21(rng, c, commits, pure):
    """pure: calls naming branch 10 / ws 20 are CommitWithWorkingSet only; other writers go elsewhere."""
    if rng.random() < 0.6:
        v = rng.choice([1, 2, 3])
        return {"k": "commitws", "c": c, "r": 10, "w": 20, "new": v if rng.random() < 0.75 else rng.randint(1, len(commits)),
                "newws": c20.ws_id(v, v) if rng.random() < 0.6 else rng.randint(101, 109), "force": rng.random() < 0.08}
    a = c20.gen_op(rng, c, commits)
    if pure:
        if a["k"] == "tag":
            return a
        if "r" in a:
            a["r"] = 11
        if a.get("w"):
            a["w"] = 21
    return a


def gen_case(rng, conc, store):
    commits, ws = c20.gen_world(rng)
    m0 = c20.gen_m0(rng, commits)
    pure = rng.random() < 0.7
    n = rng.randint(2, 4) if conc else rng.randint(2, 3)
    acts = []
    if conc:
        for c in range(n):
            acts.append(gen_op21(rng, c, commits, pure))
    else:
        for _ in range(rng.randint(4, 12)):
            c = rng.randrange(n)
            k = rng.random()
            if k < 0.10:
                acts.append({"k": "rebase", "c": c})
            elif k < 0.28:
                acts.append({"k": "get", "c": c, "r": rng.choice(NAMES)})
            else:
                if rng.random() < 0.5:
                    if rng.random() < 0.5:
                        acts.append({"k": "rebase", "c": c})
                    for nm in NAMES:
                        acts.append({"k": "get", "c": c, "r": nm})
                acts.append(gen_op21(rng, c, commits, pure))
    return {"conc": conc, "store": store, "nclients": n, "values": c20.NVALS, "commits": commits, "ws": ws, "m0": m0, "names": NAMES, "acts": acts}


def gen_ddb_case(rng):
    """doltdb-level: CommitWithWorkingSet on heads without a working set (fresh repository's main, a branch whose head was
    set at the storage level) and on heads that have one; every visible dataset update is observed."""
    acts = []
    kind = rng.choice(["rawbranch", "branch", None])
    if kind:
        acts.append({"k": kind, "branch": 11})
    for _ in range(rng.randint(1, 3)):
        acts.append({"k": "cws", "branch": 11 if (kind and rng.random() < 0.5) else 10})
    return {"ddb": True, "conc": True, "store": "ddb", "acts": acts}


def coq_case_ddb(case, out):
    o = out.get("obs")
    if o is None or out.get("err") or out.get("panic"):
        return ("({| i_world := {| w_parents := []; w_root := []; w_ws := [] |}; i_m0 := []; i_conc := true; i_acts := [] |}, "
                "{| o_base := {| o_results := [ROther]; o_final := [(0, 0)] |}; o_roots := [] |})")
    cws = [a for a in case["acts"] if a["k"] == "cws"]
    par, acts = [], []
    for i, (a, x) in enumerate(zip(cws, o["ops"])):
        if x["res"] == "ok":
            par.append("(%d, [%d])" % (x["new"], x["exp"]))
        acts.append("AOp %d (OCommitWS %d %d %d %d %d %d false)" % (i, a["branch"], a["branch"] + 10, x["exp"], x["prev"], x["new"], x["newws"]))
    inp = "{| i_world := {| w_parents := %s; w_root := []; w_ws := [] |}; i_m0 := %s; i_conc := true; i_acts := %s |}" % (
        cq_list(par), c20.coq_refs(o["m0"]), cq_list(acts))
    return "(%s, {| o_base := {| o_results := %s; o_final := %s |}; o_roots := %s |})" % (
        inp, cq_list(c20.RES[x["res"]] for x in o["ops"]), c20.coq_refs(o["final"]), cq_list(c20.coq_refs(r) for r in (o.get("roots") or [])))


def classify_ddb(case, out):
    o = out.get("obs")
    if o is None or out.get("err") or out.get("panic"):
        return ["harness-error"]
    t = ["ddb"]
    for x in o["ops"]:
        if x["res"] == "ok":
            t.append("ddb-first-commit-no-ws" if x["prev"] == 0 else "ddb-commit-with-ws")
        else:
            t.append("ddb-fail")
    if any(a["k"] == "rawbranch" for a in case["acts"]):
        t.append("ddb-rawbranch")
    return sorted(set(t))


def gen_cases(rng, tier):
    nseq, nconc, nnbs = (170, 110, 10) if tier == "quick" else (5000, 3000, 300)
    cases = [gen_case(rng, False, "mem") for _ in range(nseq)]
    cases += [gen_case(rng, True, "mem") for _ in range(nconc)]
    cases += [c20.gen_nbs_case(rng, i % 2 == 1, gen_case) for i in range(nnbs)]
    cases += [gen_ddb_case(rng) for _ in range(12 if tier == "quick" else 200)]
    if c20.known_open(ID):
        cases.append(c20.WITNESS)
    return cases


match_known = c20.match_known


def coq_case(case, out):
    if case.get("ddb"):
        return coq_case_ddb(case, out)
    o = out.get("obs")
    base = c20.coq_case(case, out)          # "(input, obs20)"
    if o is None or out.get("err") or out.get("panic"):
        roots = "[[(0, 0)]]"
    else:
        roots = cq_list(c20.coq_refs(r) for r in (o.get("roots") or []))
    # split "(input, obs)" at the top-level ", {| o_results"
    k = base.rindex(", {| o_results")
    return "(%s, {| o_base := %s; o_roots := %s |})" % (base[1:k], base[k + 2:-1], roots)


def classify(case, out):
    if case.get("ddb"):
        return classify_ddb(case, out)
    t = [x for x in c20.classify(case, out) if x in ("seq", "conc", "commitws-ok", "lock", "merge", "retry-path", "stale-fail", "nbs", "ok", "harness-error", "other", "dirty")]
    o = out.get("obs")
    if not o or "harness-error" in t:
        return t
    ops = [a for a in case["acts"] if a["k"] not in ("rebase", "get")]
    others = [a for a in ops if a["k"] != "commitws" and (a.get("r") == 10 or a.get("w") == 20)]
    t.append("mixed-writers" if others else "only-cws-pair")
    if case["conc"]:
        if sum(1 for a in ops if a["k"] == "commitws") >= 2:
            t.append("conc-two-cws")
        if len(o.get("roots") or []) > 1:
            t.append("samples>1")
    return sorted(set(t))


def nontrivial(case, out):
    o = out.get("obs")
    if not o:
        return False
    if case.get("ddb"):
        return any(x["res"] == "ok" for x in o["ops"])
    ops = [a for a in case["acts"] if a["k"] not in ("rebase", "get")]
    return any(a["k"] == "commitws" and x["res"] == "ok" for a, x in zip(ops, o["ops"]))


shrink_candidates = c20.shrink_candidates


def neighbours(case, rng):
    return [gen_case(rng, case["conc"], "mem") for _ in range(40)]


def search_cases(rng):
    return [gen_case(rng, i % 3 == 0, "mem") for i in range(150)]
