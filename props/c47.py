"""C47 — A dropped database can be restored intact until it is purged."""
import os
from lib.vlib import cq_list, cq_bool

ID = "C47"
HARNESS_PKG = "c47"
HARNESS_RUNNER = "c47"
COQ_TARGETS = ["theories/C47/Corr.vo"]
COQ_CORR_MODULE = "C47.Model C47.Spec C47.Corr"
COQ_CASE_TYPE = "C47.Corr.case"
COQ_CHECK = "C47.Corr.check_case"
COQ_MODEL_OBS = "(fun c => C47.Corr.model_obs (fst c))"
DESIGN_REF = "§5 C47"
TECHNIQUE = ("Coq proof over a model of the database provider's bookkeeping (live map keyed by case-folded name, holding directory keyed by exact name) "
             "+ in-Coq correspondence through SQL on an on-disk environment with logical fingerprints of every database")
LEVEL_TEXT = ("Proof (F/M) with one clause REFUTED: for every provider state and every sequence of operations on OTHER databases in between, DROP DATABASE n followed by "
              "dolt_undrop (under any spelling of the name) yields exactly the dropped database — the value is moved, never rewritten — under its exact name and leaves every "
              "other live database untouched, PROVIDED no other spelling of the name that sorts earlier is in the holding directory (undrop_restores, partial); without that side "
              "condition the clause is false on the model and on the engine: drop Foo, create foo, drop foo, undrop foo brings back Foo and foo becomes unrecoverable "
              "(undrop_restores_refuted, reproduced through SQL, known finding). An undrop never replaces a live database of the same case-folded name and fails without changing "
              "anything (undrop_no_overwrite, undrop_others_untouched, failed_step_unchanged); after a purge every undrop fails until something is dropped again (purge_final); "
              "dropping a second database of the same exact name keeps both generations — the earlier one under <name>.backup.<millis>, restorable under that name (drop_drop). "
              "The model is tied to dolt by running random create / change / drop / undrop / purge sequences on a real file system and comparing, inside Coq, success, exact names, "
              "the holding directory and a fingerprint of every live database after every step.")
LEVEL_NOTE = ("Trusted: Coq kernel, Go harness + Python glue. Database values are opaque in the model; in the harness a value is fingerprinted by every branch's HEAD/STAGED/WORKING root "
              "hashes, dolt_hashof_db (per branch and whole), dolt_branches, dolt_tags, dolt_log, dolt_status and the rows of every working-set table; the model's values and the "
              "fingerprints must be in bijection over the whole run. The backup name of a second generation (time stamp) is taken from the implementation. Not modelled: two drops of "
              "one exact name within the same millisecond (backup name collision: DROP fails after the database was already unregistered), the on-disk layout of the root database, "
              "DOLT_DBNAME_REPLACE name mangling, case-insensitive file systems, concurrent sessions, replication hooks.")
THEOREMS = ["undrop_restores (partial: side condition first_of_class)", "undrop_restores_refuted", "undrop_no_overwrite", "undrop_others_untouched", "failed_step_unchanged",
            "purge_final", "drop_drop"]
REFUTED = ["undrop_restores_refuted: with two spellings of one name in the holding directory dolt_undrop restores the one that sorts first, not the one dropped last under that name"]
RULE = ("6-11 operations on the root database test and nested databases db1/db2 in three spellings each: CREATE DATABASE, content changes (committed rows, unstaged and staged changes, "
        "new branch with a commit, tag, dirty new branch), DROP DATABASE, dolt_undrop by any spelling, dolt_undrop of a backup generation, dolt_purge_dropped_databases; 10% of the "
        "cases contain the two-spellings pattern, ~11% a burst of 3-6 create+drop generations of one name back to back (two consecutive drops within one wall-clock second) "
        "followed by the restore of every generation, ~11% an undrop of a name with an upper-case letter while a live database differs only in case; three fixed cases "
        "(refutation witness, burst, case variant) run first; non-trivial = at least one successful undrop; distinct by case JSON")
ASSUMPTIONS = ["case-sensitive file system (Linux)", "DOLT_DBNAME_REPLACE unset"]
REQUIRED_TAGS = ["third-same-name-drop-within-a-second", "undrop-refused-live-case-variant", "drop-ok", "undrop-ok", "undrop-other-spelling", "undrop-refused-live", "undrop-nothing", "purge", "undrop-after-purge", "second-generation-aside",
                 "undrop-aside-ok", "root-dropped", "root-undropped", "dirty-restored", "branches-restored", "create-refused", "ops-in-between"]
KNOWN_KEY = "undrop:case-variant-first-match"

BASES = ["test", "db1", "db2"]


def spellings(base):
    return [base.upper(), base.capitalize(), base.lower()]       # byte order: upper < capitalised < lower


def _name(rng, cls, lower_bias=0.6):
    sp = spellings(BASES[cls])
    return sp[2] if rng.random() < lower_bias else rng.choice(sp)


def gen_one(rng):
    ops = []
    k = [0]

    def mut(n, kinds=None):
        k[0] += 1
        return {"k": "mut", "n": n, "m": rng.choice(kinds) if kinds else rng.randrange(7), "i": k[0]}

    if rng.random() < 0.10:
        # the two-spellings pattern
        a, b = rng.sample(spellings("db1"), 2)
        ops += [{"k": "create", "n": a}, mut(a), {"k": "drop", "n": a}, {"k": "create", "n": b}, mut(b), {"k": "drop", "n": b},
                {"k": "undrop", "n": rng.choice([a, b])}, {"k": "undrop", "n": rng.choice([a, b])}]
        return {"ops": ops}
    y = rng.random()
    if y < 0.12:
        # rapid repeated drop of one name: 3-4 generations back to back, then every generation restored by its (backup) name
        x = _name(rng, rng.choice([1, 2]))
        g = rng.choice([3, 3, 4])
        ops += [{"k": "burst", "n": x, "g": g}, {"k": "undrop", "n": _name(rng, BASES.index(x.lower()), 0.5)}]
        ops += [{"k": "undropx", "n": x} for _ in range(g)]
        return {"ops": ops}
    if y < 0.24:
        # a live database that differs only in case from a dropped one with an upper-case letter: undrop must refuse,
        # and the live database must stay usable
        a = rng.choice(spellings("db1")[:2])
        b = rng.choice([x for x in spellings("db1") if x != a])
        ops += [{"k": "create", "n": a}, mut(a), {"k": "drop", "n": _name(rng, 1, 0.3)}, {"k": "create", "n": b}, mut(b, [0, 1]),
                {"k": "undrop", "n": rng.choice(spellings("db1"))}, mut(b, [0, 1])]
        n = rng.randint(0, 2)
    elif y < 0.42:
        # two generations of one exact name, then both restored (either order)
        x = _name(rng, rng.choice([1, 2]))
        ops += [{"k": "create", "n": x}, mut(x, [4, 5, 6]), {"k": "drop", "n": x}, {"k": "create", "n": x}, mut(x, [2, 3, 6]), {"k": "drop", "n": x}]
        tail = [{"k": "undrop", "n": _name(rng, BASES.index(x.lower()), 0.5)}, {"k": "undropx", "n": x}]
        rng.shuffle(tail)
        ops += tail
        n = rng.randint(0, 2)
    elif y < 0.58:
        # the root database
        ops += [mut("test", [2, 3, 4, 5, 6]), {"k": "drop", "n": _name(rng, 0)}]
        if rng.random() < 0.4:
            ops += [{"k": "create", "n": _name(rng, 0, 0.8)}, {"k": "undrop", "n": "test"}, {"k": "drop", "n": "test"}]
        elif rng.random() < 0.6:
            ops += [{"k": "create", "n": "db2"}, mut("db2")]            # other databases in between
        ops.append({"k": "undrop", "n": _name(rng, 0, 0.5)})
        n = rng.randint(1, 3)
    else:
        first = _name(rng, 1)
        ops.append({"k": "create", "n": first})
        for _ in range(rng.randint(1, 3)):
            ops.append(mut(first))
        if rng.random() < 0.35:
            ops.append({"k": "create", "n": _name(rng, 1, 0.3)})      # refused: the name is taken (any spelling)
        n = rng.randint(5, 9) - len(ops)
    n += len(ops)
    while len(ops) < n:
        x = rng.random()
        cls = rng.choice([0, 1, 1, 1, 2, 2])
        if x < 0.13:
            ops.append({"k": "create", "n": _name(rng, rng.choice([1, 2]))})
        elif x < 0.30:
            ops.append(mut(_name(rng, cls, 0.8)))
        elif x < 0.55:
            ops.append({"k": "drop", "n": _name(rng, cls, 0.7)})
            if rng.random() < 0.35:
                ops.append({"k": "create", "n": _name(rng, cls if cls else 0, 0.8)})
        elif x < 0.88:
            ops.append({"k": "undrop", "n": _name(rng, cls, 0.5)})
        elif x < 0.91:
            ops.append({"k": "undropx", "n": _name(rng, cls, 0.7)})
        else:
            ops.append({"k": "purge"})
            if rng.random() < 0.6:
                ops.append({"k": "undrop", "n": _name(rng, cls, 0.5)})
    return {"ops": ops}


# the witness of undrop_restores_refuted (coq/theories/C47/Proofs.v), replayed on the implementation on every run
WITNESS = {"ops": [{"k": "create", "n": "Db1"}, {"k": "mut", "n": "Db1", "m": 0, "i": 1}, {"k": "drop", "n": "db1"},
                   {"k": "create", "n": "db1"}, {"k": "mut", "n": "db1", "m": 2, "i": 2}, {"k": "drop", "n": "db1"},
                   {"k": "undrop", "n": "db1"}, {"k": "undrop", "n": "db1"}]}


# rapid repeated drop of one name; every generation restored afterwards
CASE_BURST = {"ops": [{"k": "burst", "n": "db2", "g": 3}, {"k": "undrop", "n": "db2"}, {"k": "undropx", "n": "db2"}, {"k": "undropx", "n": "db2"},
                      {"k": "undropx", "n": "db2"}]}
# undrop of a name with an upper-case letter while a database differing only in case is live
CASE_VARIANT = {"ops": [{"k": "create", "n": "Db2"}, {"k": "mut", "n": "Db2", "m": 0, "i": 1}, {"k": "drop", "n": "Db2"}, {"k": "create", "n": "db2"},
                        {"k": "mut", "n": "db2", "m": 0, "i": 2}, {"k": "undrop", "n": "Db2"}, {"k": "mut", "n": "db2", "m": 1, "i": 3}]}


def gen_cases(rng, tier):
    n = 22 if tier == "quick" else 800
    return [WITNESS, CASE_BURST, CASE_VARIANT] + [gen_one(rng) for _ in range(n)]


# ---- names ----
class Names:
    def __init__(self):
        self.backup = {}

    def of(self, s):
        for c, b in enumerate(BASES):
            sp = spellings(b)
            if s in sp:
                return (c, sp.index(s))
        if ".backup." in s:
            if s not in self.backup:
                self.backup[s] = 100 + len(self.backup)
            return (self.backup[s], 0)
        return (900 + (sum(map(ord, s)) % 50), 0)


def _good(out):
    o = out.get("obs")
    return o is not None and not out.get("err") and not out.get("panic")


def _steps(out):
    """(operation, observation) pairs as the harness executed them (a burst is reported as its create / drop steps)"""
    return [({"k": st["k"], "n": st.get("n", ""), "m": st.get("m", 0), "i": st.get("i", 0)}, st) for st in out["obs"]["steps"]]


def _translate(case, out):
    """-> (list of Coq ops, list of observations as (ok, [(name, fp)], [names])) with names as (class, spelling)"""
    o = out["obs"]
    nm = Names()
    fps = {}

    def fp(x):
        if x not in fps:
            fps[x] = len(fps)
        return fps[x]

    def ob(st):
        live = sorted((nm.of(d["name"]), fp(d["fp"])) for d in st["live"])
        return (st["ok"], live, sorted(nm.of(d) for d in st["dropped"]))

    # register backup names in order of appearance so that classes are stable
    prev = o["init"]
    for st in o["steps"]:
        for d in sorted(st["dropped"]):
            nm.of(d)
        for d in st["live"]:
            nm.of(d["name"])
    obs = [ob(o["init"])]
    ops = []
    prev = o["init"]
    for idx, (op, st) in enumerate(_steps(out)):
        k = op["k"]
        if k == "create":
            ops.append("Create (%d, %d) %d" % (nm.of(op["n"]) + (idx + 1,)))
        elif k == "mut":
            ops.append("Mutate (%d, %d) %d" % (nm.of(op["n"]) + (idx + 1,)))
        elif k == "drop":
            new = [d for d in st["dropped"] if d not in prev["dropped"] and ".backup." in d]
            aside = nm.of(new[0]) if new else (950 + idx, 0)
            ops.append("Drop (%d, %d) (%d, %d)" % (nm.of(op["n"]) + aside))
        elif k == "undrop":
            ops.append("Undrop (%d, %d)" % nm.of(op["n"]))
        elif k == "undropx":
            arg = st.get("arg", "")
            ops.append("Undrop (%d, %d)" % (nm.of(arg) if arg in nm.backup else (980, 0)))
        elif k == "purge":
            ops.append("Purge")
        obs.append(ob(st))
        prev = st
    return ops, obs


def _sobs(x):
    ok, live, dropped = x
    return "{| o_ok := %s; o_live := %s; o_dropped := %s |}" % (
        cq_bool(ok), cq_list("((%d, %d), %d)" % (n[0], n[1], f) for n, f in live), cq_list("(%d, %d)" % n for n in dropped))


def coq_case(case, out):
    if not _good(out) or (case["ops"] and not out["obs"]["steps"]):
        return "([Purge], [])"
    ops, obs = _translate(case, out)
    return "(%s, %s)" % (cq_list(ops), cq_list(_sobs(x) for x in obs))


# ---- distribution ----
def classify(case, out):
    if not _good(out):
        return ["harness-error"]
    o = out["obs"]
    tags = set()
    prev = o["init"]
    purged = False
    dropped_at = {}      # lower-case name -> (index, mutation kinds before the drop)
    muts = {}
    for idx, (op, st) in enumerate(_steps(out)):
        k, ok, msg = op["k"], st["ok"], st.get("msg", "")
        low = op.get("n", "").lower()
        if k == "create":
            if ok:
                muts[low] = set()
            else:
                tags.add("create-refused")
        elif k == "mut" and ok:
            muts.setdefault(low, set()).add(op["m"])
        elif k == "drop" and ok:
            tags.add("drop-ok")
            purged = False
            dropped_at[low] = (idx, set(muts.get(low, ())))
            if low == "test":
                tags.add("root-dropped")
            if any(".backup." in d and d not in prev["dropped"] for d in st["dropped"]):
                tags.add("second-generation-aside")
            if st.get("samesec"):
                tags.add("third-same-name-drop-within-a-second")
            if len({d for d in st["dropped"] if d.lower() == low}) > 1:
                tags.add("two-spellings-held")
        elif k == "undrop":
            if ok:
                tags.add("undrop-ok")
                new = [d["name"] for d in st["live"] if d["name"] not in [x["name"] for x in prev["live"]]]
                if new and new[0] != op["n"]:
                    tags.add("undrop-other-spelling")
                if low == "test":
                    tags.add("root-undropped")
                if low in dropped_at:
                    j, ms = dropped_at[low]
                    if ms & {2, 3, 6}:
                        tags.add("dirty-restored")
                    if ms & {4, 5, 6}:
                        tags.add("branches-restored")
                    if idx - j > 1:
                        tags.add("ops-in-between")
            elif "already exists" in msg:
                tags.add("undrop-refused-live")
                held = [d for d in prev["dropped"] if d.lower() == low and d != d.lower()]
                livev = [d["name"] for d in prev["live"] if d["name"].lower() == low]
                if held and livev and livev[0] not in held:
                    tags.add("undrop-refused-live-case-variant")
            else:
                tags.add("undrop-nothing")
                if purged:
                    tags.add("undrop-after-purge")
        elif k == "undropx":
            tags.add("undrop-aside-ok" if ok else "undrop-aside-none")
        elif k == "purge" and ok:
            tags.add("purge")
            purged = True
        prev = st
    return sorted(tags)


def nontrivial(case, out):
    if not _good(out):
        return False
    return any(op["k"] in ("undrop", "undropx") and st["ok"] for op, st in _steps(out))


# ---- known finding ----
def match_known(finding, case, out):
    """dolt_undrop picks the first directory entry equal up to case. The case matches when every step is explained by exactly that rule
    (restored name = the smallest held spelling, restored fingerprint = what was dropped under that exact name) and at least one undrop
    restored a database other than the one dropped last under the requested name."""
    if finding.get("key") != KNOWN_KEY or not _good(out):
        return False
    o = out["obs"]
    held = {}        # exact name -> fingerprint
    pile = []        # most recent first
    prev = o["init"]
    deviation = False
    for op, st in _steps(out):
        k, ok = op["k"], st["ok"]
        low = op.get("n", "").lower()
        plive = {d["name"]: d["fp"] for d in prev["live"]}
        nlive = {d["name"]: d["fp"] for d in st["live"]}
        if k in ("create", "mut"):
            pass
        elif k == "drop" and ok:
            hit = [n for n in plive if n.lower() == low]
            if len(hit) != 1:
                return False
            fresh = [d for d in st["dropped"] if d not in prev["dropped"] and d.lower() == low]
            e = fresh[0] if fresh else hit[0]          # the root database is held under the name as typed
            if e in held:
                new = [d for d in st["dropped"] if d not in prev["dropped"] and ".backup." in d]
                if len(new) != 1:
                    return False
                held[new[0]] = held.pop(e)
                pile = [(new[0], f) if n == e else (n, f) for n, f in pile]
            held[e] = plive[hit[0]]
            pile.insert(0, (e, plive[hit[0]]))
        elif k in ("undrop", "undropx"):
            want = st.get("arg", "") if k == "undropx" else op["n"]
            cands = sorted(n for n in held if n.lower() == want.lower())
            live_clash = any(n.lower() == want.lower() for n in plive)
            if not ok:
                if cands and not live_clash:
                    return False
            else:
                new = [n for n in nlive if n not in plive]
                if live_clash or not cands or len(new) != 1 or new[0] != cands[0] or nlive[new[0]] != held[cands[0]]:
                    return False
                latest = next((n, f) for n, f in pile if n.lower() == want.lower())
                if latest != (new[0], nlive[new[0]]):
                    if len(cands) < 2:
                        return False
                    deviation = True
                del held[new[0]]
                pile = [(n, f) for n, f in pile if n != new[0]]
        elif k == "purge" and ok:
            held, pile = {}, []
        # every other live database untouched
        for n, f in plive.items():
            if n.lower() != low and nlive.get(n) != f:
                return False
        prev = st
    return deviation


def shrink_candidates(case):
    if os.environ.get("VERIF_NOSHRINK"):
        return
    ops = case["ops"]
    for i in range(len(ops) - 1, -1, -1):
        yield dict(case, ops=ops[:i] + ops[i + 1:])


def neighbours(case, rng):
    return [gen_one(rng) for _ in range(20)]
