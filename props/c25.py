"""C25 — Secondary indexes always mirror their table."""
from lib.vlib import cq_list
from props import sqlsched_gen as G

ID = "C25"
HARNESS_PKG = "c25"
HARNESS_RUNNER = "c25"
COQ_TARGETS = ["theories/C25/Corr2.vo"]
COQ_CORR_MODULE = "C23.Model C23.Spec C23.Corr C25.Model C25.Spec C25.Corr C25.Keyless C25.Corr2"
COQ_CASE_TYPE = "C25.Corr2.acase"
COQ_CHECK = "C25.Corr2.check_any"
COQ_SHARD = 400
DESIGN_REF = "§5 C25"
TECHNIQUE = ("Coq proof (invariant over every writer-operation sequence: incrementally maintained index = index rebuilt from the rows, for any index "
             "key function) + in-Coq correspondence: stored index entries read by covering queries vs rows of the primary scan, and vs a re-created index")
LEVEL_TEXT = ("Proof (F/M for DML and row edits of merges; partial overall): for an arbitrary index-key function of the row (single column, multi-column, "
              "prefix) and every sequence of writer operations Insert/Update/Delete — which is also what a transaction merge or fast-forward applies to the "
              "secondary indexes — Coq proves that the index contains exactly one entry per row, derived from the row's current values, and equals the "
              "index rebuilt from the rows. Row edits of dolt_merge / cherry-pick / revert / conflict resolution are writer operations with the LEFT pre-image "
              "(edits_mirror_preserved); keyless tables: the entry of a row value is present iff its cardinality is positive, for every sequence of INSERT / "
              "DELETE..LIMIT / UPDATE..LIMIT (keyless_mirror_preserved). Both are driven by the generator: forced-commit merges (incl. NOT NULL added on one side, "
              "NULL set on the other, indexed column changed), conflicts resolved --ours/--theirs, cherry-pick, revert, index rebuild; keyless duplicates with "
              "partial deletes / updates. Partial: partial-index predicates, virtual columns, rebase, prefix indexes on the engine side.")
LEVEL_NOTE = ("Trusted: Coq kernel, Go harness + Python glue; the planner answering the per-value queries from the secondary index alone (checked on every "
              "case through EXPLAIN: IndexedTableAccess on the covering index). Modelled, not verified: prolly map Put/Delete (a set of entries), the engine's "
              "choice of old/new row passed to the writers, unique-key checking.")
THEOREMS = ["mirror_preserved", "mirror_from_empty", "incremental_is_rebuild", "one_entry_per_row",
            "edits_mirror_preserved", "rebuild_mirrors", "keyless_mirror_preserved", "keyless_mirror_from_empty", "keyless_partial_delete_keeps_entry"]
RULE = ("C23 schedules (2-4 sessions, DML on overlapping rows, commits with transaction merges, autocommit sessions) run on t(pk,a,b) with KEY ia(a) and "
        "KEY iba(b,a); after the schedule every index is read value by value (NULL, 0..6) with covering queries, then dropped, re-created and read again; "
        "non-trivial = a committed update/delete of an indexed column; distinct by schedule content")
ASSUMPTIONS = ["indexed values stay within NULL, 0..6 for the per-value queries (larger values are not queried on either side)"]
REQUIRED_TAGS = ["commit-ok", "merge-nonff", "cellwise-merge", "uses-index", "index-nonempty", "null-key",
                 "vc-case", "merge-notnull-violation-indexed-col", "cherry-pick-index", "resolve-index", "revert-index", "merge-unique-or-check-free",
                 "keyless-case", "keyless-index-partial-delete-2to1", "keyless-delete-all", "keyless-update-indexed", "keyless-null-key"]

VAL_ORDER = {-1: 0, 0: 1, 1: 2, 2: 3, 3: 4, 4: 5, 5: 6, 6: 7}


def _dml(rng, keys=(1, 2, 3, 4)):
    st = G.gen_stmt(rng, 0, list(keys))
    while st[1] in (G.K_BEGIN, G.K_COMMIT, G.K_ROLLBACK, G.K_SELECT, G.K_SELKEY):
        st = G.gen_stmt(rng, 0, list(keys))
    return st


def gen_vc(rng):
    init = [[k, G._val(rng), G._val(rng)] for k in G.KEYS if rng.random() < 0.7] or [[1, 0, 0]]
    nn = rng.random() < 0.45
    left = [_dml(rng) for _ in range(rng.randint(1, 4))]
    right = [_dml(rng) for _ in range(rng.randint(1, 4))]
    if nn:
        # the left branch puts NULLs into b, the right branch changes the indexed column a of the same rows
        for r in rng.sample(init, min(len(init), rng.randint(1, 2))):
            left.append([0, G.K_UPDATE, r[0], 1, -1])
            if rng.random() < 0.8:
                right.append([0, G.K_UPDATE, r[0], 0, rng.randint(0, 3)])
        right = [st for st in right if not (st[1] == G.K_INSERT and st[4] < 0) and not (st[1] == G.K_UPDATE and st[3] == 1 and st[4] < 0)]
    return {"mode": "vc", "init": init, "left": left, "right": right, "notnull": nn,
            "op": "cherry" if rng.random() < 0.3 else "merge", "resolve": rng.choice(["ours", "theirs"]),
            "revert": rng.random() < 0.35}


def gen_keyless(rng):
    vals_a = [-1, 0, 1, 1, 2]
    rows = []
    steps = []
    for _ in range(rng.randint(5, 14)):
        r = rng.random()
        if r < 0.4 or not rows:
            a, b = rng.choice(vals_a), rng.choice([-1, 0, 1])
            steps.append([0, a, b, rng.randint(1, 3), 0]); rows.append((a, b))
        else:
            a, b = rng.choice(rows)
            if r < 0.7:
                steps.append([1, a, b, rng.randint(1, 3), 0])
            elif r < 0.85:
                z = rng.choice([-1, 0, 1, 2]); steps.append([2, a, b, rng.randint(1, 2), z]); rows.append((a, z))
            else:
                z = rng.choice([-1, 0, 1, 2, 3]); steps.append([3, a, b, rng.randint(1, 2), z]); rows.append((z, b))
    return {"mode": "keyless", "steps": steps}


FIXED_VC = [
    # right adds NOT NULL to b and changes the indexed column a of row 1; left sets b = NULL on row 1
    {"mode": "vc", "init": [[1, 0, 0], [2, 1, 1]], "left": [[0, 5, 1, 1, -1]], "right": [[0, 5, 1, 0, 2]], "notnull": True, "op": "merge", "resolve": "ours", "revert": False},
    {"mode": "vc", "init": [[1, 0, 0], [2, 1, 1]], "left": [[0, 5, 1, 0, 1], [0, 4, 3, 2, 2]], "right": [[0, 5, 1, 0, 2], [0, 6, 2, 0, 0]], "notnull": False, "op": "merge", "resolve": "theirs", "revert": True},
    {"mode": "vc", "init": [[1, 0, 0], [2, 1, 1]], "left": [[0, 5, 1, 0, 1]], "right": [[0, 5, 1, 0, 2]], "notnull": False, "op": "merge", "resolve": "ours", "revert": False},
    {"mode": "vc", "init": [[1, 0, 0], [2, 1, 1]], "left": [[0, 5, 1, 1, 2]], "right": [[0, 5, 1, 0, 2], [0, 4, 4, 1, 1]], "notnull": False, "op": "cherry", "resolve": "ours", "revert": False},
    {"mode": "vc", "init": [[1, 0, 0], [2, 1, 1]], "left": [[0, 5, 2, 0, 3]], "right": [[0, 5, 1, 0, 2], [0, 6, 2, 0, 0]], "notnull": False, "op": "cherry", "resolve": "theirs", "revert": False},
]
FIXED_KL = [
    # a row stored twice, one copy deleted: the index entry must stay
    {"mode": "keyless", "steps": [[0, 1, 0, 2, 0], [1, 1, 0, 1, 0], [1, 1, 0, 1, 0]]},
    {"mode": "keyless", "steps": [[0, 1, 0, 3, 0], [0, 1, 2, 1, 0], [1, 1, 0, 1, 0], [2, 1, 0, 1, 5], [3, 1, 0, 1, 2], [0, -1, 1, 2, 0], [3, -1, 1, 1, 1], [1, -1, 1, 5, 0]]},
]


def gen_cases(rng, tier):
    n = 170 if tier == "quick" else 8000
    cases = [dict(c) for c in G.FIXED_TXN]
    while len(cases) < n:
        cases.append(G.gen_one_txn(rng))
    cases += [dict(c) for c in FIXED_VC + FIXED_KL]
    for _ in range(90 if tier == "quick" else 3000):
        cases.append(gen_vc(rng))
    for _ in range(90 if tier == "quick" else 3000):
        cases.append(gen_keyless(rng))
    return cases


def _entries(rows):
    """rows [key cols..., pk]; canonical order: queried value order of the first column, then pk"""
    rs = sorted(rows, key=lambda r: (VAL_ORDER.get(r[0], 99), r[-1]))
    return cq_list("(%s, %d)" % (cq_list(G.cq_cell(v) for v in r[:-1]), r[-1]) for r in rs)


def _krow(r):
    return "(%s, %s)" % (G.cq_cell(r[0]), G.cq_cell(r[1]))


def _kl_universe(case):
    rows = set()
    for k, a, b, n, z in case["steps"]:
        rows.add((a, b))
        if k == 2:
            rows.add((a, z))
        if k == 3:
            rows.add((z, b))
    return sorted(rows)


def _kop(st):
    k, a, b, n, z = st
    r = _krow((a, b))
    if k == 0:
        return "KIns %s %d" % (r, n)
    if k == 1:
        return "KDel %s %d" % (r, n)
    if k == 2:
        return "KUpd %s %s %d" % (r, _krow((a, z)), n)
    return "KUpd %s %s %d" % (r, _krow((z, b)), n)


def coq_case_vc(case, out):
    o = out.get("obs")
    if o is None or out.get("err") or out.get("panic"):
        return "BV ({| v_U := []; v_scans := [(0, [])] |}, {| vo_idx := []; vo_uses := false |})"
    keys = sorted(set(r[0] for p in o["points"] for r in p["full"]))
    scans = cq_list("(%d, %s)" % (p["label"], cq_list(G.cq_row(r) for r in p["full"])) for p in o["points"])
    idx = cq_list("(%s, %s)" % (_entries(p["bya"]), _entries(p["byb"])) for p in o["points"])
    return "BV ({| v_U := %s; v_scans := %s |}, {| vo_idx := %s; vo_uses := %s |})" % (
        cq_list(str(k) for k in keys), scans, idx, "true" if o["usesidx"] else "false")


def coq_case_kl(case, out):
    o = out.get("obs")
    inp = "{| kl_rows := %s; kl_ops := %s |}" % (cq_list(_krow(r) for r in _kl_universe(case)), cq_list(_kop(st) for st in case["steps"]))
    if o is None or out.get("err") or out.get("panic"):
        return "BK (%s, {| ko_points := []; ko_rebuilt := []; ko_uses := false |})" % inp
    order = lambda rows: sorted(rows, key=lambda r: (VAL_ORDER.get(r[0], 99), r[1]))
    pts = cq_list("{| kp_aff := %d; kp_scan := %s; kp_bya := %s |}" % (
        max(p["aff"], 0) if p["err"] == 0 else 999, cq_list(_krow(r) for r in sorted(p["scan"])), cq_list(_krow(r) for r in order(p["bya"])))
        for p in o["points"])
    return "BK (%s, {| ko_points := %s; ko_rebuilt := %s; ko_uses := %s |})" % (
        inp, pts, cq_list(_krow(r) for r in order(o["rebuilt"])), "true" if o["usesidx"] else "false")


def coq_case(case, out):
    if case.get("mode") == "vc":
        return coq_case_vc(case, out)
    if case.get("mode") == "keyless":
        return coq_case_kl(case, out)
    return "B1 " + coq_case_txn(case, out)


def coq_case_txn(case, out):
    o = out.get("obs")
    inp = G.cq_input(case)
    if o is None or out.get("err") or out.get("panic"):
        return "(%s, {| o_errs := [99]; o_full := []; o_bya := []; o_byb := []; o_bya2 := []; o_byb2 := []; o_uses := false |})" % inp
    return ("(%s, {| o_errs := %s; o_full := %s; o_bya := %s; o_byb := %s; o_bya2 := %s; o_byb2 := %s; o_uses := %s |})" % (
        inp, cq_list(str(e) for e in o["errs"]), cq_list(G.cq_row(r) for r in o["full"]),
        _entries(o["bya"]), _entries(o["byb"]), _entries(o["bya2"]), _entries(o["byb2"]), "true" if o["usesidx"] else "false"))


def classify_vc(case, o):
    t = {"vc-case"}
    if o["conflicts"] > 0:
        t.add("resolve-index"); t.add("resolve-" + case["resolve"])
    if case["op"] == "cherry":
        t.add("cherry-pick-index")
    if any(p["label"] == 2 and p["err"] == 0 for p in o["points"]):
        t.add("revert-index")
    vt = set(v[0] for v in o["viol"])
    if 4 in vt:
        t.add("merge-notnull-violation")
        # a violating row whose indexed column a was changed by the right branch
        vk = set(v[1] for v in o["viol"] if v[0] == 4)
        if any(st[1] in (G.K_UPDATE, G.K_UPDADD) and st[3] == 0 and st[2] in vk for st in case["right"]):
            t.add("merge-notnull-violation-indexed-col")
    if not vt and o["conflicts"] == 0:
        t.add("merge-unique-or-check-free")
    if any(p["err"] for p in o["points"]):
        t.add("vc-op-error")
    if o["points"][0]["full"] != o["points"][1]["full"]:
        t.add("nontrivial")
    if o["usesidx"]:
        t.add("uses-index")
    return sorted(t)


def classify_kl(case, o):
    t = {"keyless-case", "nontrivial"}
    card = {}
    for st, p in zip(case["steps"], o["points"]):
        k, a, b, n, z = st
        c = card.get((a, b), 0)
        if k == 0:
            card[(a, b)] = c + n
            if a < 0:
                t.add("keyless-null-key")
        elif k == 1 and c > 0:
            m = min(n, c)
            if c == 2 and m == 1:
                t.add("keyless-index-partial-delete-2to1")
            elif c - m > 0:
                t.add("keyless-index-partial-delete")
            else:
                t.add("keyless-delete-all")
            card[(a, b)] = c - m
        elif k in (2, 3) and c > 0:
            new = (a, z) if k == 2 else (z, b)
            if new != (a, b):
                m = min(n, c)
                card[(a, b)] = c - m
                card[new] = card.get(new, 0) + m
                t.add("keyless-update-indexed" if k == 3 else "keyless-update-other")
                if c - m > 0:
                    t.add("keyless-partial-update")
        if p["err"]:
            t.add("keyless-stmt-error")
    if o["usesidx"]:
        t.add("uses-index")
    return sorted(t)


def classify(case, out):
    o = out.get("obs")
    if o is None:
        return ["panic", "vc-case" if case.get("mode") == "vc" else "keyless-case" if case.get("mode") == "keyless" else "txn-case"]
    if case.get("mode") == "vc":
        return classify_vc(case, o)
    if case.get("mode") == "keyless":
        return classify_kl(case, o)
    fake = {"obs": {"steps": [{"err": e, "rows": [], "aff": 0} for e in o["errs"]], "final": o["full"]}}
    t = [x for x in G.classify_txn(case, fake)]
    if o["usesidx"]:
        t.append("uses-index")
    if o["bya"]:
        t.append("index-nonempty")
    if any(r[0] < 0 for r in o["bya"]):
        t.append("null-key")
    return t


def nontrivial(case, out):
    return "nontrivial" in classify(case, out)


def run_impl(ctx, binary, cases):
    """Run the harness; if the process dies (a panic in a goroutine of the engine cannot be recovered by the
    harness kernel), isolate the crashing case(s) and report them as observations {"panic": ...}."""
    from lib import vlib

    def run(cs):
        return vlib.run_harness(binary, HARNESS_RUNNER, cs, timeout=1800)

    try:
        return run(cases)
    except vlib.HarnessError:
        pass
    outs = []
    for s0 in range(0, len(cases), 20):
        chunk = cases[s0:s0 + 20]
        try:
            outs.extend(run(chunk))
            continue
        except vlib.HarnessError:
            pass
        for c in chunk:
            try:
                outs.extend(run([c]))
            except vlib.HarnessError as ex:
                outs.append({"i": len(outs), "panic": "harness process died: " + str(ex)[:1500]})
    return outs


_SHRINK_BUDGET = [30]   # each candidate costs a harness run and a coqc start


def shrink_candidates(case):
    for c in _shrink_all(case):
        if _SHRINK_BUDGET[0] <= 0:
            return
        _SHRINK_BUDGET[0] -= 1
        yield c


def _shrink_all(case):
    if case.get("mode") == "vc":
        for f in ("left", "right", "init"):
            for i in range(len(case[f])):
                yield dict(case, **{f: case[f][:i] + case[f][i + 1:]})
        if case["revert"]:
            yield dict(case, revert=False)
        return
    st = case["steps"]
    for i in range(len(st)):
        yield dict(case, steps=st[:i] + st[i + 1:])


def neighbours(case, rng):
    if case.get("mode") == "vc":
        return [gen_vc(rng) for _ in range(40)]
    if case.get("mode") == "keyless":
        return [gen_keyless(rng) for _ in range(40)]
    return G.neighbours_txn(case, rng)
