"""C25 — Secondary indexes always mirror their table."""
from lib.vlib import cq_list
from props import sqlsched_gen as G

ID = "C25"
HARNESS_PKG = "c25"
HARNESS_RUNNER = "c25"
COQ_TARGETS = ["theories/C25/Corr.vo"]
COQ_CORR_MODULE = "C23.Model C23.Spec C23.Corr C25.Model C25.Spec C25.Corr"
COQ_CASE_TYPE = "C25.Corr.case"
COQ_CHECK = "C25.Corr.check_case"
COQ_MODEL_OBS = "(fun c => C25.Corr.model_obs (fst c))"
COQ_SHARD = 400
DESIGN_REF = "§5 C25"
TECHNIQUE = ("Coq proof (invariant over every writer-operation sequence: incrementally maintained index = index rebuilt from the rows, for any index "
             "key function) + in-Coq correspondence: stored index entries read by covering queries vs rows of the primary scan, and vs a re-created index")
LEVEL_TEXT = ("Proof (F/M for DML and row edits of merges; partial overall): for an arbitrary index-key function of the row (single column, multi-column, "
              "prefix) and every sequence of writer operations Insert/Update/Delete — which is also what a transaction merge or fast-forward applies to the "
              "secondary indexes — Coq proves that the index contains exactly one entry per row, derived from the row's current values, and equals the "
              "index rebuilt from the rows. Partial: keyless-table indexes, partial-index predicates, virtual columns, DDL rebuild paths and the "
              "branch-level operations (dolt_merge, cherry-pick, revert, rebase, conflict resolution) are covered only in so far as they reduce to row edits; "
              "they are not driven by this check's generator.")
LEVEL_NOTE = ("Trusted: Coq kernel, Go harness + Python glue; the planner answering the per-value queries from the secondary index alone (checked on every "
              "case through EXPLAIN: IndexedTableAccess on the covering index). Modelled, not verified: prolly map Put/Delete (a set of entries), the engine's "
              "choice of old/new row passed to the writers, unique-key checking.")
THEOREMS = ["mirror_preserved", "mirror_from_empty", "incremental_is_rebuild", "one_entry_per_row"]
RULE = ("C23 schedules (2-4 sessions, DML on overlapping rows, commits with transaction merges, autocommit sessions) run on t(pk,a,b) with KEY ia(a) and "
        "KEY iba(b,a); after the schedule every index is read value by value (NULL, 0..6) with covering queries, then dropped, re-created and read again; "
        "non-trivial = a committed update/delete of an indexed column; distinct by schedule content")
ASSUMPTIONS = ["indexed values stay within NULL, 0..6 for the per-value queries (larger values are not queried on either side)"]
REQUIRED_TAGS = ["commit-ok", "merge-nonff", "cellwise-merge", "uses-index", "index-nonempty", "null-key"]

VAL_ORDER = {-1: 0, 0: 1, 1: 2, 2: 3, 3: 4, 4: 5, 5: 6, 6: 7}


def gen_cases(rng, tier):
    n = 250 if tier == "quick" else 8000
    cases = [dict(c) for c in G.FIXED_TXN]
    while len(cases) < n:
        cases.append(G.gen_one_txn(rng))
    return cases


def _entries(rows):
    """rows [key cols..., pk]; canonical order: queried value order of the first column, then pk"""
    rs = sorted(rows, key=lambda r: (VAL_ORDER.get(r[0], 99), r[-1]))
    return cq_list("(%s, %d)" % (cq_list(G.cq_cell(v) for v in r[:-1]), r[-1]) for r in rs)


def coq_case(case, out):
    o = out.get("obs")
    inp = G.cq_input(case)
    if o is None or out.get("err") or out.get("panic"):
        return "(%s, {| o_errs := [99]; o_full := []; o_bya := []; o_byb := []; o_bya2 := []; o_byb2 := []; o_uses := false |})" % inp
    return ("(%s, {| o_errs := %s; o_full := %s; o_bya := %s; o_byb := %s; o_bya2 := %s; o_byb2 := %s; o_uses := %s |})" % (
        inp, cq_list(str(e) for e in o["errs"]), cq_list(G.cq_row(r) for r in o["full"]),
        _entries(o["bya"]), _entries(o["byb"]), _entries(o["bya2"]), _entries(o["byb2"]), "true" if o["usesidx"] else "false"))


def classify(case, out):
    o = out.get("obs")
    if o is None:
        return ["panic"]
    fake = {"obs": {"steps": [{"err": e, "rows": [], "aff": 0} for e in o["errs"]], "final": o["full"]}}
    t = [x for x in G.classify_txn(case, fake)]
    if o["usesidx"]:
        t.append("uses-index")
    if o["bya"]:
        t.append("index-nonempty")
    if any(r[0] < 0 for r in o["bya"]):
        t.append("null-key")
    return t


def nontrivial(case, out):
    return "nontrivial" in classify(case, out)


shrink_candidates = G.shrink_txn
neighbours = G.neighbours_txn
