"""C35 — Push, pull, fetch and clone transfer complete and consistent data."""
from lib import vlib
from lib.vlib import cq_list, cq_bool

ID = "C35"
HARNESS_PKG = "c35"
HARNESS_RUNNER = "c35"
COQ_TARGETS = ["theories/C35/Corr.vo"]
COQ_CORR_MODULE = "C08.Model C08.Spec C35.Model C35.Spec C35.Corr"
COQ_CASE_TYPE = "C35.Corr.case"
COQ_CHECK = "C35.Corr.check_case"
DESIGN_REF = "§5 C35"
TECHNIQUE = ("Coq proof over C08's chunk graphs (pull = closure of the heads minus the sink, copied in any batch order; ref update = "
             "compare-and-set guarded by data completeness and the fast-forward check; invariant over every prefix of every interleaving of "
             "transfer steps) + in-Coq correspondence on graphs exported by the real walker, with file:// remotes driven through SQL")
LEVEL_TEXT = ("Proof (F/M): pull_complete (after the missing closure has been copied, in any batches and order, every chunk reachable from the "
              "transferred heads is at the destination), ref_after_data (in every prefix of every interleaving of copy and ref-update steps every "
              "destination ref is backed by its complete closure), push_cas (two updates against the same expected head cannot both succeed), "
              "ff_only_keeps_history (a non-forced successful update keeps every commit of the old head reachable).")
LEVEL_NOTE = ("Trusted: Coq kernel, Go harness + Python glue. Modelled, not verified: the puller's pruning by HasMany at the sink is modelled as "
              "'closure minus sink' (sound when the sink is closed, C07); table-file upload, manifest update and the remote's ref CAS are atomic "
              "steps; gRPC/HTTP remotes, retries and interrupted uploads are not exercised by the harness (file:// remotes only).")
THEOREMS = ["pull_complete", "ref_after_data", "push_cas", "ff_only_keeps_history"]
RULE = ("source repositories from C09's recipe options (tags, stashes, foreign keys, secondary indexes, out-of-band values, 3..400 rows, merge "
        "commits); schedule push×2, clone, commit+push+pull, divergent push (must be refused), forced push, and (half of the cases) two "
        "concurrent pushes against one head; non-trivial = universe of at least 20 chunks; distinct by recipe")
ASSUMPTIONS = ["file:// remotes in temp directories, single process", "in-progress merge/rebase state is local and is not transferred"]
REQUIRED_TAGS = ["race", "race-one-winner", "nonff-refused", "clone-equal", "pull-equal", "multi-level"]
HARNESS_TIMEOUT = 2400
COQ_SHARD = 8


def gen_cases(rng, tier):
    n = 8 if tier == "quick" else 120
    cases = []
    for j in range(n):
        c = {"scn": "plain", "rows": [3, 30, 400, 5][j % 4] if j < 4 else rng.choice([3, 5, 30, 400]), "race": j % 2 == 0}
        for k in ("tag", "stash", "fk", "idx", "blob"):
            c[k] = rng.random() < 0.5
        cases.append(c)
    return cases


BAD = ("({| i_universe := []; i_heads := [1]; i_remote_has := [] |}, {| o_refs_match := false; o_closed := false; o_clone_equal := false; "
       "o_pull_equal := false; o_nonff_refused := false; o_force_ok := false; o_race_ok := false |})")


def coq_case(case, out):
    o = out.get("obs")
    if o is None or out.get("panic") or out.get("err") or not o.get("graph"):
        return BAD
    g = cq_list("(%d, %s)" % (r[0], cq_list(str(x) for x in r[1:])) for r in o["graph"])
    return ("({| i_universe := %s; i_heads := %s; i_remote_has := %s |}, {| o_refs_match := %s; o_closed := %s; o_clone_equal := %s; "
            "o_pull_equal := %s; o_nonff_refused := %s; o_force_ok := %s; o_race_ok := %s |})") % (
        g, cq_list(str(x) for x in o["heads"]), cq_list(str(x) for x in o["remote_has"]),
        cq_bool(o["refs_match"]), cq_bool(o["closed"]), cq_bool(o["clone_equal"]), cq_bool(o["pull_equal"]),
        cq_bool(o["nonff_refused"]), cq_bool(o["force_ok"]), cq_bool(o["race_ok"]))


def classify(case, out):
    o = out.get("obs")
    if o is None or out.get("panic") or out.get("err"):
        return ["panic-or-error"]
    t = []
    if case.get("race"):
        t.append("race")
        if o.get("race_winners") == 1:
            t.append("race-one-winner")
        elif o.get("race_winners") == 0:
            t.append("race-no-winner")
    if o.get("nonff_refused"):
        t.append("nonff-refused")
    if o.get("clone_equal"):
        t.append("clone-equal")
    if o.get("pull_equal"):
        t.append("pull-equal")
    if len(o.get("graph") or []) >= 60:
        t.append("multi-level")
    if o.get("script_errs"):
        t.append("script-error")
    return t


def nontrivial(case, out):
    o = out.get("obs")
    return bool(o) and len(o.get("graph") or []) >= 20


def shrink_candidates(case):
    for k in ("tag", "stash", "fk", "idx", "blob", "race"):
        if case.get(k):
            c = dict(case)
            c[k] = False
            yield c
    if case.get("rows", 3) > 3:
        c = dict(case)
        c["rows"] = 3
        yield c


def neighbours(case, rng):
    out = []
    for k in ("tag", "stash", "fk", "idx", "blob", "race"):
        c = dict(case)
        c[k] = not case.get(k)
        out.append(c)
    return out


def match_known(finding, case, out):
    return False
