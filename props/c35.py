"""C35 — Push, pull, fetch and clone transfer complete and consistent data."""
from lib import vlib
from lib.vlib import cq_list, cq_bool

ID = "C35"
HARNESS_PKG = "c35"
HARNESS_RUNNER = "c35"
COQ_TARGETS = ["theories/C35/Corr.vo"]
COQ_CORR_MODULE = "C08.Model C08.Spec C35.Model C35.Spec C35.Corr"
COQ_CASE_TYPE = "C35.Corr.case"
COQ_CHECK = "C35.Corr.check_case"
DESIGN_REF = "§5 C35"
TECHNIQUE = ("Coq proof over C08's chunk graphs (pull = closure of the heads minus the sink, copied in any batch order; ref update = "
             "compare-and-set guarded by data completeness and the fast-forward check; invariant over every prefix of every interleaving of "
             "transfer steps) + in-Coq correspondence on graphs exported by the real walker, with file:// remotes driven through SQL")
LEVEL_TEXT = ("Proof (F/M): pull_complete (the HasMany-pruned walk of the puller — an address the sink already has is neither fetched nor "
              "expanded — brings every chunk reachable from the heads PROVIDED the sink is closed under references (C07); "
              "pruning_needs_closed_sink shows the hypothesis cannot be dropped; pull_need_minimal: nothing superfluous is fetched; "
              "pull_add_accepted: the fetched files pass the reference check of AddTableFilesToManifest), ref_after_data (for every list of "
              "add-files / ref-update steps and every prefix of it — every interruption point of any number of interleaved transfers — the "
              "destination stays closed and every ref is backed by its whole closure), push_complete, push_cas (two updates against the same "
              "expected head cannot both succeed), ff_only_keeps_history.")
LEVEL_NOTE = ("Trusted: Coq kernel, Go harness + Python glue. Modelled, not verified: table-file upload and manifest update are atomic steps "
              "guarded by the reference check; the remote's ref update is a compare-and-set whose new root must be present. Tied to the code by "
              "(a) push/clone/pull/forced and racing pushes through SQL over file:// remotes and (b) failure injection on the real code path "
              "(dbfactory scheme wrapping the remote's chunk store: HasMany, WriteTableFile before/mid/after, AddTableFilesToManifest "
              "before/after, Commit before/after, GetManyCompressed after k chunks, Sources/Open) with the destination examined after every "
              "injected failure. gRPC/HTTP remotes and retries/back-off are not exercised.")
THEOREMS = ["pull_complete", "pull_complete_batches", "pull_need_minimal", "pruning_needs_closed_sink", "pull_add_accepted",
            "ref_after_data", "push_complete", "push_cas", "ff_only_keeps_history", "data_complete_spec"]
RULE = ("source repositories from C09's recipe options (tags, stashes, foreign keys, secondary indexes, out-of-band values, 3..400 rows, merge "
        "commits); schedule push×2, clone, commit+push+pull, divergent push (must be refused), forced push, and (half of the cases) two "
        "concurrent pushes against one head; non-trivial = universe of at least 20 chunks; distinct by recipe")
ASSUMPTIONS = ["file:// remotes in temp directories, single process", "in-progress merge/rebase state is local and is not transferred"]
REQUIRED_TAGS = ["race", "race-one-winner", "nonff-refused", "clone-equal", "pull-equal", "multi-level",
                 "adaptive-out-of-band-small-value", "transport-grpc", "transport-file", "race-grpc", "race-file", "interrupt", "int-push-data-no-ref", "int-push-ref-moved", "int-fetch", "int-pull", "int-clone", "int-all-fired"]
HARNESS_TIMEOUT = 2400
COQ_SHARD = 8


def gen_cases(rng, tier):
    n = 8 if tier == "quick" else 120
    cases = []
    for j in range(n):
        c = {"scn": "plain", "rows": [3, 30, 400, 5][j % 4] if j < 4 else rng.choice([3, 5, 30, 400]), "race": j % 2 == 0}
        for k in ("tag", "stash", "fk", "idx", "blob"):
            c[k] = rng.random() < 0.5
        c["grpc"] = j % 4 in (0, 3)        # remotesapi transport (in-process remotesrv, gRPC+HTTP) instead of file://
        c["wide"] = (j % 2 == 1) or rng.random() < 0.3    # wide rows: short out-of-band adaptive values must be transferred
        cases.append(c)
    # interrupted transfers on the real code: every injected failure point of push (sink side: HasMany, WriteTableFile
    # before/mid/after, AddTableFilesToManifest before/after, Commit before/after), fetch and pull (source side: HasMany,
    # GetManyCompressed after k chunks), clone (Sources, Open)
    for j in range(2 if tier == "quick" else 30):
        c = {"scn": "plain", "rows": rng.choice([3, 5, 30]), "interrupt": True}
        for k in ("tag", "fk", "idx", "blob"):
            c[k] = rng.random() < 0.5
        c["wide"] = j == 0
        cases.append(c)
    return cases


BAD = ("({| i_universe := []; i_heads := [1]; i_remote_has := []; i_points := [] |}, {| o_refs_match := false; o_closed := false; o_clone_equal := false; "
       "o_pull_equal := false; o_nonff_refused := false; o_force_ok := false; o_race_ok := false |})")


def coq_case(case, out):
    o = out.get("obs")
    if o is None or out.get("panic") or out.get("err") or not o.get("graph"):
        return BAD
    g = cq_list("(%d, %s)" % (r[0], cq_list(str(x) for x in r[1:])) for r in o["graph"])
    pts = cq_list("(%s, %s)" % (cq_list(str(x) for x in p["present"]), cq_list(str(x) for x in p["heads"])) for p in (o.get("points") or []))
    return ("({| i_universe := %s; i_heads := %s; i_remote_has := %s; i_points := %s |}, {| o_refs_match := %s; o_closed := %s; o_clone_equal := %s; "
            "o_pull_equal := %s; o_nonff_refused := %s; o_force_ok := %s; o_race_ok := %s |})") % (
        g, cq_list(str(x) for x in o["heads"]), cq_list(str(x) for x in o["remote_has"]), pts,
        cq_bool(o["refs_match"]), cq_bool(o["closed"]), cq_bool(o["clone_equal"]), cq_bool(o["pull_equal"]),
        cq_bool(o["nonff_refused"]), cq_bool(o["force_ok"]), cq_bool(o["race_ok"]))


def classify(case, out):
    o = out.get("obs")
    if o is None or out.get("panic") or out.get("err"):
        return ["panic-or-error"]
    t = []
    if case.get("wide"):
        t.append("adaptive-out-of-band-small-value")
    if case.get("grpc"):
        t.append("transport-grpc")
        if case.get("race"):
            t.append("race-grpc")
    elif not case.get("interrupt"):
        t.append("transport-file")
        if case.get("race"):
            t.append("race-file")
    if case.get("race"):
        t.append("race")
        if o.get("race_winners") == 1:
            t.append("race-one-winner")
        elif o.get("race_winners") == 0:
            t.append("race-no-winner")
    if o.get("nonff_refused"):
        t.append("nonff-refused")
    if o.get("clone_equal"):
        t.append("clone-equal")
    if o.get("pull_equal"):
        t.append("pull-equal")
    if len(o.get("graph") or []) >= 60:
        t.append("multi-level")
    if o.get("script_errs"):
        t.append("script-error")
    pts = o.get("points") or []
    if case.get("interrupt"):
        t.append("interrupt")
        ops = {p["op"] for p in pts}
        if any(p["op"].startswith("push") and p["fail"].startswith("add-after") and p["present"] for p in pts):
            t.append("int-push-data-no-ref")      # data added, failure reported, ref not moved
        if any(p["op"].startswith("push") and p["fail"].startswith("commit-after") for p in pts):
            t.append("int-push-ref-moved")        # ref moved at the remote, failure reported to the client
        for op in ("fetch", "pull", "clone"):
            if op in ops:
                t.append("int-" + op)
        if sum(1 for p in pts if p["fired"]) >= 25:
            t.append("int-all-fired")
        if any(not p["fired"] and p["fail"] != "none" for p in pts):
            t.append("int-some-not-reached")
    return t


def nontrivial(case, out):
    o = out.get("obs")
    return bool(o) and len(o.get("graph") or []) >= 20


def shrink_candidates(case):
    for k in ("tag", "stash", "fk", "idx", "blob", "wide"):
        if case.get(k):
            c = dict(case)
            c[k] = False
            yield c
    if case.get("rows", 3) > 3:
        c = dict(case)
        c["rows"] = 3
        yield c


def neighbours(case, rng):
    out = []
    for k in ("tag", "stash", "fk", "idx", "blob", "race"):
        c = dict(case)
        c[k] = not case.get(k)
        out.append(c)
    return out


def match_known(finding, case, out):
    return False
