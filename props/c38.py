"""C38 — Branch permissions follow the rule table's documented matching."""
from lib.vlib import cq_bytes, cq_bool, cq_list

ID = "C38"
HARNESS_PKG = "c38"
HARNESS_RUNNER = "c38"
COQ_TARGETS = ["theories/C38/Corr.vo"]
COQ_CORR_MODULE = "Base.Str C38.Model C38.Spec C38.Corr"
COQ_CASE_TYPE = "C38.Corr.case"
COQ_CHECK = "C38.Corr.check_case"
COQ_MODEL_OBS = "(fun c => C38.Corr.model_obs (fst c))"
DESIGN_REF = "§5 C38"
TECHNIQUE = ("Coq proof (FoldExpression preserves LIKE; the state-set matcher = recursive LIKE on folded expressions; longest-match loop = "
             "declarative maximum/union, independent of rule order) + in-Coq correspondence against FoldExpression / ParseExpression / Match / "
             "Access.Insert / Delete / Match / Namespace.CanCreate, also through dolt_branch_control / dolt_branch_namespace_control")
LEVEL_TEXT = ("Proof (F/M for folding semantics, the expression matcher, the namespace rule and the MatchNode trie as a finite map: for EVERY "
              "history of Add/Remove — node splitting, merging, the Data/Children handling of Remove included — the trie holds exactly the rules "
              "the history denotes (order independence at the trie level). Match over the trie is proved sound in full and complete for every match "
              "that uses the expression up; completeness for a trailing '%' left over is refuted by a witness that fails on the real code, so the "
              "decision theorem trie = rule set is P with that class as an explicit hypothesis. Three deviations from LIKE in all are refuted "
              "with witnesses that fail on the real code. fold_normal is proved for the fixed point of the pass (that the model's fuel reaches it: P).")
LEVEL_NOTE = ("Trusted: Coq kernel, Go harness + Python glue. Parameters fed from the implementation per case: sort orders of utf8mb4_0900_ai_ci / "
              "utf8mb4_0900_bin and strings.ToLower for the code points involved. The correspondence run evaluates Access.Match through the Coq model "
              "of the trie (add_node / rem_node / pmatch / nstep transcribed from expr_parser_node.go) and Access.rows through the rule-level table. "
              "Not proved: LIKE for the concatenated four-column rule-level matcher (column markers), that the fold fuel always suffices; not "
              "modelled: sync.Pool reuse, uint16 length truncation (not generated), Go map iteration order (only single-entry maps are iterated).")
THEOREMS = ["fold_pass_sem", "fold_sem", "fold_fixpoint_normal", "fold_normal_partial", "nfa_eq_like", "match1_nonempty_is_like",
            "match1_empty_refuted", "longest_loop_spec", "access_match_perm_invariant_partial", "access_request_parsed_refuted",
            "add_node_lookup", "rem_node_ok", "add_node_wf", "trie_denotes_history", "trie_order_independent", "trie_match_sound",
            "trie_match_complete_exact", "trie_eq_rules_partial", "trie_trailing_any_refuted", "trie_decision_eq_rules_partial",
            "trie_decision_order_independent_partial", "namespace_spec"]
REFUTED = ["match1_empty_refuted", "access_request_parsed_refuted", "trie_trailing_any_refuted"]
RULE = ("[trie families: rules on one database/branch/user whose hosts are proper prefixes / extensions of one another — a rule with two "
        "children, with one child, chains of depth 3, forks below a non-rule node — inserted in random order, leaves and inner rules deleted in "
        "random order, every surviving and deleted rule probed, also through dolt_branch_control] expressions and subjects over code points {a b c A B e-acute E-acute % _ \\ and the empty string}; subjects derived from expressions by "
        "instantiating wildcards, changing case / accents, or mutating one character; rule tables of 1-6 rules with respelled ('%%' vs '%', case) "
        "keys, deletes and re-inserts in random order, requests derived from the rules; collations ai_ci and bin; non-trivial = at least one "
        "wildcard, escape or rule; distinct by content")
ASSUMPTIONS = ["strings are valid UTF-8 and shorter than 65535 bytes (the uint16 truncation branches are not exercised)",
               "an access rule whose PARSED expressions equal those of a live rule ('m\\ain' vs 'main', 'é%' vs 'e%' under ai_ci) is not inserted "
               "through the API while that rule is live: MatchNode.Add then overwrites the node's data but Access.rows keeps the old row "
               "(the SQL table rejects such an insert via ExactMatch); deletes by an equivalent spelling are generated and modelled",
               "SQL-driven histories consist of the statements the tables accepted (dolt_branch_control rejects a row already covered by an "
               "existing rule with the same permissions)"]
REQUIRED_TAGS = ["fold-changed", "fold-escape", "fold-multipass", "m1-match", "m1-nomatch", "m1-bin", "m1-casefold", "m1-accent", "m1-escape",
                 "m1-empty-subject", "m1-empty-pattern", "acc-found", "acc-notfound", "acc-tie-union", "acc-longest-wins", "acc-delete",
                 "acc-reinsert", "acc-respelled-key", "acc-sql", "acc-special-in-request",
                 "trie-parent-rule-two-children-delete-leaf", "trie-parent-rule-one-child-delete-leaf", "trie-delete-inner-rule",
                 "trie-inner-rule-absorbs-only-child", "trie-absorb-last-child", "trie-chain-depth3", "trie-probe-deleted-rule", "trie-family-sql", "ns-allowed", "ns-denied", "ns-unrestricted", "ns-delete"]
KNOWN_KEY_REQ = "access-match:request-strings-parsed-as-expressions"
KNOWN_KEY_EMPTY = "match:empty-subject-processed-as-U+FFFD"
KNOWN_KEY_TRAIL = "access-match:trailing-any-starting-a-child-node-not-reported"


def _registered(key):
    """the trailing-'%' class is generated only once the finding is registered (until then its witnesses live in
    work/C38/pending/ and in the theorem trie_trailing_any_refuted), so that a registered tree keeps checking it"""
    import json, os
    try:
        k = json.load(open(os.path.join(os.path.dirname(os.path.dirname(os.path.abspath(__file__))), "known_findings.json")))
        return any(f.get("property") == "C38" and f.get("key") == key and str(f.get("status", "")).startswith("open") for f in k.get("findings", []))
    except (OSError, ValueError):
        return False
COQ_SHARD = 300

BS, PCT, US = 92, 37, 95

# ---------------------------------------------------------------------------
# Python readings (used for generation, tags and match_known only)
# ---------------------------------------------------------------------------


def fold_pass(s):
    out, st = [], "n"
    for r in s:
        if st == "skip":
            out.append(r); st = "n"
        elif st == "cons":
            st = "n"
            if r == BS:
                out += [PCT, r]; st = "skip"
            elif r == US:
                out += [r, PCT]
            elif r == PCT:
                out.append(r)
            else:
                out += [PCT, r]
        elif r == BS:
            out.append(r); st = "skip"
        elif r == PCT:
            st = "cons"
        else:
            out.append(r)
    if st == "cons":
        out.append(PCT)
    return out


def fold(s):
    s = list(s)
    n = 0
    while True:
        t = fold_pass(s)
        n += 1
        if t == s:
            return s, n
        s = t


def parse(so, s):
    out, esc = [], False
    for r in s:
        if esc:
            out.append(so(r)); esc = False
        elif r == BS:
            esc = True
        elif r == PCT:
            out.append(-2)
        elif r == US:
            out.append(-1)
        else:
            out.append(so(r))
    return out


def like(p, s):
    # classic DP
    n, m = len(p), len(s)
    ok = [[False] * (m + 1) for _ in range(n + 1)]
    ok[n][m] = True
    for i in range(n - 1, -1, -1):
        for j in range(m, -1, -1):
            if p[i] == -2:
                ok[i][j] = ok[i + 1][j] or (j < m and ok[i][j + 1])
            else:
                ok[i][j] = j < m and (p[i] == -1 or p[i] == s[j]) and ok[i + 1][j + 1]
    return ok[0][0]


class Tab:
    def __init__(self, rows):
        self.d = {r[0]: r for r in rows}

    def ci(self, c):
        return self.d[c][1] if c in self.d else c + 1000000

    def bin(self, c):
        return self.d[c][2] if c in self.d else c + 1000000

    def lower(self, s):
        return [self.d[c][3] if c in self.d else c for c in s]


def like_str(so, p, s):
    return like(parse(so, p), [so(c) for c in s])


def norm_key(tab, r):
    return (tuple(tab.lower(fold(r["d"])[0])), tuple(tab.lower(fold(r["b"])[0])), tuple(fold(r["u"])[0]), tuple(tab.lower(fold(r["h"])[0])))


def tok_key(tab, k):
    """identity of an access rule: its parsed expressions (the path in the trie)"""
    return (tuple(parse(tab.ci, k[0])), tuple(parse(tab.ci, k[1])), tuple(parse(tab.bin, k[2])), tuple(parse(tab.ci, k[3])))


def _lower_py(s):
    return [ord(ch) for ch in "".join(chr(c) for c in s).lower()] if all(c not in (0x130,) for c in s) else s


_CI = {ord("é"): ord("e"), ord("É"): ord("e")}


def key_py(r):
    """identity of a rule computed without the implementation's tables (generator side): parsed tokens, accent- and
    case-insensitive except for the user"""
    def ci(c):
        c = _CI.get(c, c)
        return ord(chr(c).lower()) if len(chr(c).lower()) == 1 else c
    return (tuple(parse(ci, fold(r["d"])[0])), tuple(parse(ci, fold(r["b"])[0])), tuple(parse(lambda c: c, fold(r["u"])[0])), tuple(parse(ci, fold(r["h"])[0])))


def current_rules(tab, ops, by_tokens=True):
    cur = {}
    for op in ops:
        k = norm_key(tab, op)
        same = [k2 for k2 in cur if (tok_key(tab, k2) == tok_key(tab, k) if by_tokens else k2 == k)]
        for k2 in same:
            del cur[k2]
        if op["ins"]:
            cur[k] = op["perm"]
    return cur


def expand(p):
    if p & 1:
        return p | 14
    if p & 2:
        return p | 12
    if p & 4:
        return p | 8
    return p


def spec_access(tab, cur, q):
    ms = []
    for (d, b, u, h), perm in cur.items():
        if like_str(tab.ci, d, q[0]) and like_str(tab.ci, b, q[1]) and like_str(tab.bin, u, q[2]) and like_str(tab.ci, h, q[3]):
            ln = 4 + len(parse(tab.ci, d)) + len(parse(tab.ci, b)) + len(parse(tab.bin, u)) + len(parse(tab.ci, h))
            ms.append((ln, perm))
    if not ms:
        return (False, 0)
    top = max(l for l, _ in ms)
    p = 0
    for l, perm in ms:
        if l == top:
            p |= perm
    return (True, expand(p))


def utf8len(s):
    return len("".join(chr(c) for c in s).encode("utf-8"))


def spec_can_create(tab, cur, q):
    ms = [k for k in cur if like_str(tab.ci, k[0], q[0]) and like_str(tab.ci, k[1], q[1])]
    if not ms:
        return True
    top = max(utf8len(k[1]) for k in ms)
    return any(utf8len(k[1]) == top and like_str(tab.bin, k[2], q[2]) and like_str(tab.ci, k[3], q[3]) for k in ms)


# ---------------------------------------------------------------------------
# generator
# ---------------------------------------------------------------------------
LIT = [ord(c) for c in "abcABéÉ"]
SPECIAL = [PCT, US, BS]


def cp(s):
    return [ord(c) for c in s]


def rand_expr(rng, maxlen=6):
    out = []
    for _ in range(rng.randint(0, maxlen)):
        k = rng.random()
        if k < 0.22:
            out.append(PCT)
        elif k < 0.38:
            out.append(US)
        elif k < 0.5:
            out.append(BS)
            if rng.random() < 0.85:
                out.append(rng.choice(SPECIAL + LIT[:2]))
        else:
            out.append(rng.choice(LIT))
    if rng.random() < 0.2:
        i = rng.randint(0, len(out))
        out[i:i] = rng.choice([[PCT, PCT], [PCT, US], [PCT, PCT, US, PCT], [PCT, US, US], [PCT, BS, PCT], [US, PCT, US], [PCT, PCT, PCT]])
    return out


VARIANT = {ord("a"): [ord("A")], ord("A"): [ord("a")], ord("b"): [ord("B")], ord("B"): [ord("b")], ord("é"): [ord("É"), ord("e")],
           ord("É"): [ord("é"), ord("E")], ord("c"): [ord("C")]}


def instantiate(rng, expr, special_ok=True):
    """a subject that is likely to match expr"""
    out, esc = [], False
    pool = LIT + ([US, PCT] if special_ok else [])
    for r in expr:
        if esc:
            out.append(r); esc = False
        elif r == BS:
            esc = True
        elif r == PCT:
            out += [rng.choice(pool) for _ in range(rng.choice([0, 0, 1, 1, 2, 3]))]
        elif r == US:
            out.append(rng.choice(pool))
        else:
            out.append(rng.choice(VARIANT.get(r, [r]) + [r, r]) if rng.random() < 0.4 else r)
    k = rng.random()
    if k < 0.12 and out:
        i = rng.randrange(len(out)); out[i] = rng.choice(LIT)
    elif k < 0.2 and out:
        i = rng.randrange(len(out)); del out[i]
    elif k < 0.26:
        out.insert(rng.randint(0, len(out)), rng.choice(LIT))
    return out


def gen_fold(rng):
    return {"k": "fold", "s": rand_expr(rng, 8), "coll": rng.choice([0, 0, 1])}


def gen_m1(rng):
    p = rand_expr(rng, 6)
    k = rng.random()
    s = [] if k < 0.07 else instantiate(rng, fold(p)[0] if rng.random() < 0.5 else p)
    return {"k": "m1", "p": p, "s": s, "coll": rng.choice([0, 0, 1])}


DBS = ["db", "d%", "%", "DB", "d_", "%%", "d\\b"]
BRS = ["main", "m%", "ma_n", "%", "feature\\_x", "feature_x", "f%x", "É%", "é%", "%%", "%_", "_%", "ma%n", "MAIN", "m\\%", "f%\\_x", "", "__in", "%n"]
USERS = ["u", "U", "%", "u_", "root", "_", "", "u\\_", "é"]
HOSTS = ["h", "%", "H", "localhost", "local%", "", "_"]
REQ_BRS = ["main", "Main", "man", "feature_x", "featureXx", "fx", "f_x", "f%x", "éa", "Ea", "m%", "m", "", "a\\b", "ma_n", "xxin", "feature\\_x"]


def gen_rule(rng):
    return {"ins": True, "d": cp(rng.choice(DBS)), "b": cp(rng.choice(BRS)) if rng.random() < 0.8 else rand_expr(rng, 4),
            "u": cp(rng.choice(USERS)), "h": cp(rng.choice(HOSTS)), "perm": rng.choice([1, 2, 4, 8, 2, 4, 0, 6, 12])}


def respell(rng, r):
    def f(s, lowerable):
        s = list(s)
        out = []
        for c in s:
            if c == PCT and rng.random() < 0.5:
                out += [PCT, PCT]
            elif lowerable and c in VARIANT and rng.random() < 0.4 and c < 128:
                out.append(VARIANT[c][0])
            else:
                out.append(c)
        return out
    return dict(r, d=f(r["d"], True), b=f(r["b"], True), u=f(r["u"], False), h=f(r["h"], True))


FAMILY = ["main", "m%", "%n", "ma_n", "%", "m%n", "____", "%a%", "ma%", "_ain", "MAIN", "m\\ain", "%i%", "mai_", "%in"]


def gen_table(rng, kind, sql):
    live = {}
    ops = []
    n = rng.randint(1, 6)
    family = rng.random() < 0.5            # overlapping rules on one database/user/host: ties in length, longest wins
    fd, fu, fh = rng.choice(["db", "%", "d%"]), rng.choice(["u", "%", "u"]), rng.choice(["h", "%", "h"])
    graveyard = []
    for _ in range(n):
        k = rng.random()
        if graveyard and k < 0.12:
            r = graveyard.pop()                                # re-insert a deleted rule (possibly with other permissions)
            r = dict(r, ins=True, perm=0 if kind == "ns" else rng.choice([1, 2, 4, 8]))
            key = key_py(r)
            if key in live:
                continue
            live[key] = r
            ops.append(r)
        elif live and k < 0.3:
            key = rng.choice(list(live))
            r = respell(rng, live[key]) if rng.random() < 0.5 else live[key]
            ops.append(dict(r, ins=False))
            graveyard.append(live[key])
            del live[key]
        elif k < 0.36:
            ops.append(dict(gen_rule(rng), ins=False))        # delete of something absent
        else:
            r = gen_rule(rng)
            if family:
                r.update(d=cp(fd), u=cp(fu), h=cp(fh), b=cp(rng.choice(FAMILY)))
            if kind == "ns":
                r["perm"] = 0
            key = key_py(r)
            if key in live:
                continue
            live[key] = r
            ops.append(r)
    reqs = []
    rules = [o for o in ops if o["ins"]] or [gen_rule(rng)]
    for _ in range(rng.randint(3, 6)):
        r = rng.choice(rules)
        k = rng.random()
        plain = rng.random() < 0.75          # most requests carry no % _ \ (those are the known-finding class for the access table)
        q = [instantiate(rng, fold(r["d"])[0], not plain), instantiate(rng, fold(r["b"])[0], not plain) if k < 0.7 else cp(rng.choice(REQ_BRS)),
             instantiate(rng, fold(r["u"])[0], not plain), instantiate(rng, fold(r["h"])[0], not plain)]
        if family and rng.random() < 0.7:
            q = [cp("db"), cp(rng.choice(["main", "Main", "man", "mn", "maan", "xain", "m"])), cp("u"), cp("h")]
        if plain and kind == "acc":
            q = [[c for c in col if c not in SPECIAL] for col in q]
        reqs.append(q)
    c = {"k": kind, "ops": ops, "reqs": reqs}
    if sql and kind == "acc":
        c["sql"] = True
    return c


PREFIXES = ["10.0.0.", "h", "local", "ab", "10.0.0.1", ""]
EXT = ["1", "0", "a", "b", "x", "2"]


def gen_trie_family(rng, sql):
    """Rules whose four-column concatenations are proper prefixes / extensions of one another (they differ in the host, the
    last column): a rule with exactly two children, with one child, chains of depth 3, branching below a non-rule node.
    Inserted in random order; leaves and inner rules deleted in random order; every surviving and every deleted rule probed."""
    d, b, u = rng.choice(["db", "d%"]), rng.choice(["main", "m%", "ma_n"]), rng.choice(["u", "root", "%"])
    base = rng.choice(PREFIXES)
    x, y, z = rng.sample(EXT, 3)
    shape = rng.choice(["two", "two", "two", "one", "chain3", "chain3", "fork", "two+chain", "two+deep"])
    if shape == "two":
        hosts = [base + x, base + x + y, base + x + z]
    elif shape == "one":
        hosts = [base + x, base + x + y]
    elif shape == "chain3":
        hosts = [base + x, base + x + y, base + x + y + z]
    elif shape == "fork":
        hosts = [base + x + y, base + x + z] + ([base + y] if rng.random() < 0.5 else [])
    elif shape == "two+chain":
        hosts = [base + x, base + x + y, base + x + z, base + x + y + z]
    else:
        hosts = [base + x, base + x + y + x, base + x + y + z, base + x + z]
    hosts = [h for h in hosts if h != ""] or ["h"]
    if rng.random() < 0.3:
        hosts.append(rng.choice(["other", "zz", base + "q"]))
    hosts = list(dict.fromkeys(hosts))
    perms = {h: rng.choice([1, 2, 4, 8]) for h in hosts}
    order = list(hosts)
    rng.shuffle(order)
    ops = [R(d, b, u, h, perms[h]) for h in order]
    live = list(hosts)
    dels = []
    for _ in range(rng.choice([1, 1, 2, 2, 3])):
        if not live:
            break
        k = rng.random()
        leaves = [h for h in live if not any(o != h and o.startswith(h) for o in live)]
        inner = [h for h in live if h not in leaves]
        h = rng.choice(leaves) if (k < 0.6 or not inner) else rng.choice(inner)
        live.remove(h)
        dels.append(h)
        ops.append(R(d, b, u, h, perms[h], ins=False))
        if rng.random() < 0.15:
            perms[h] = rng.choice([1, 2, 4, 8])
            ops.append(R(d, b, u, h, perms[h]))
            live.append(h)
    qd, qb, qu = "db", "main", ("u" if u != "root" else "root")
    reqs = [Q(qd, qb, qu, h) for h in hosts]
    if rng.random() < 0.5:
        reqs.append(Q(qd, qb, qu, hosts[0] + "9"))
    c = {"k": "acc", "ops": ops, "reqs": reqs, "fam": shape}
    if sql:
        c["sql"] = True
    return c


def R(d, b, u, h, perm=2, ins=True):
    return {"ins": ins, "d": cp(d), "b": cp(b), "u": cp(u), "h": cp(h), "perm": perm}


def Q(d, b, u, h):
    return [cp(d), cp(b), cp(u), cp(h)]


FIXED = [
    {"k": "fold", "s": cp("%%_a%_%\\%%"), "coll": 0}, {"k": "fold", "s": cp("%__"), "coll": 0}, {"k": "fold", "s": cp("%%%"), "coll": 0},
    {"k": "fold", "s": cp("\\"), "coll": 0}, {"k": "fold", "s": cp("%\\"), "coll": 0}, {"k": "fold", "s": cp(""), "coll": 1},
    {"k": "fold", "s": cp("%\\_%_"), "coll": 0}, {"k": "fold", "s": cp("%_%_%_"), "coll": 0},
    {"k": "m1", "p": cp("_"), "s": [], "coll": 0}, {"k": "m1", "p": [], "s": [], "coll": 0}, {"k": "m1", "p": cp("%"), "s": [], "coll": 0},
    {"k": "m1", "p": cp("a\\_b"), "s": cp("a_b"), "coll": 0}, {"k": "m1", "p": cp("É"), "s": cp("e"), "coll": 0}, {"k": "m1", "p": cp("É"), "s": cp("e"), "coll": 1},
    {"k": "m1", "p": cp("%a%a"), "s": cp("aaa"), "coll": 0}, {"k": "m1", "p": cp("%ab"), "s": cp("aab"), "coll": 1}, {"k": "m1", "p": cp("%_"), "s": cp("a"), "coll": 0},
    {"k": "acc", "ops": [R("db", "a\\_b", "u", "h", 2), R("db", "a_b", "u", "h", 4), R("db", "%", "u", "h", 8)],
     "reqs": [Q("db", "a_b", "u", "h"), Q("db", "axb", "u", "h"), Q("DB", "AXB", "u", "H"), Q("db", "axb", "U", "h"), Q("db", "zz", "u", "h")]},
    {"k": "acc", "ops": [R("db", "m%", "u", "h", 2), R("db", "%n", "u", "h", 4), R("db", "main", "u", "h", 2, False), R("db", "M%%", "u", "h", 0, False),
                         R("db", "m%", "u", "h", 1)], "reqs": [Q("db", "main", "u", "h"), Q("db", "mx", "u", "h")]},
    {"k": "acc", "sql": True, "ops": [R("db", "feature\\_x", "u", "h", 2), R("db", "M%", "u", "h", 1)], "reqs": [Q("db", "feature_x", "u", "h"), Q("db", "main", "u", "h")]},
    {"k": "ns", "ops": [R("db", "a%", "u", "h", 0), R("db", "ab%", "_", "h", 0), R("db", "x%", "", "h", 0)],
     "reqs": [Q("db", "abc", "u", "h"), Q("db", "ac", "u", "h"), Q("db", "abc", "", "h"), Q("db", "xy", "", "h"), Q("db", "q", "u", "h"), Q("db", "abc", "v", "h2")]},
]


TRAIL_FIXED = [
    {"k": "acc", "ops": [R("db", "main", "u", "h", 4), R("db", "main", "u", "h%", 1)], "reqs": [Q("db", "main", "u", "h"), Q("db", "main", "u", "hx")]},
    {"k": "acc", "ops": [R("db", "main", "u", "h%", 1), R("db", "main", "u", "hx", 4)], "reqs": [Q("db", "main", "u", "h"), Q("db", "main", "u", "hy")]},
    {"k": "acc", "sql": True, "ops": [R("db", "main", "u", "%", 1), R("db", "main", "u", "localhost", 4)], "reqs": [Q("db", "main", "u", ""), Q("db", "main", "u", "localhost")]},
]


def gen_cases(rng, tier):
    nf, nm, na, nas, nn = (250, 500, 260, 20, 45) if tier == "quick" else (5000, 12000, 6000, 300, 600)
    cases = list(FIXED)
    if _registered(KNOWN_KEY_TRAIL):
        cases += TRAIL_FIXED
    cases += [gen_fold(rng) for _ in range(nf)]
    cases += [gen_m1(rng) for _ in range(nm)]
    cases += [gen_table(rng, "acc", False) for _ in range(na)]
    ntf, ntfs = (150, 12) if tier == "quick" else (3000, 150)
    cases += [gen_trie_family(rng, False) for _ in range(ntf)]
    cases += [gen_trie_family(rng, True) for _ in range(ntfs)]
    cases += [gen_table(rng, "acc", True) for _ in range(nas)]
    cases += [gen_table(rng, "ns", True) for _ in range(nn)]
    return cases


# ---------------------------------------------------------------------------
# Coq terms
# ---------------------------------------------------------------------------
def _z(x):
    return "(%d)%%Z" % x


def _tab(t):
    return cq_list("(%d%%N, {| ci_so := %s; ci_bin := %s; ci_lower := %d%%N |})" % (r[0], _z(r[1]), _z(r[2]), r[3]) for r in t)


def _str(s):
    return "[" + "; ".join("%d%%N" % c for c in s) + "]"


def _rule(r):
    return "mk_rule %s %s %s %s %d%%N" % (_str(r["d"]), _str(r["b"]), _str(r["u"]), _str(r["h"]), r.get("perm", 0))


def _ops(ops):
    return cq_list("(%s, %s)" % (cq_bool(o["ins"]), _rule(o)) for o in ops)


def _reqs(qs):
    return cq_list("mk_req %s %s %s %s" % tuple(_str(c) for c in q) for q in qs)


def eff_ops(case, o):
    """the history the tables accepted: SQL-driven cases report per statement whether it was applied (dolt_branch_control rejects a
    row already covered by an existing rule with the same permissions; duplicate keys are rejected)"""
    ap = (o or {}).get("applied")
    if not ap or len(ap) != len(case["ops"]):
        return case["ops"]
    return [op for op, a in zip(case["ops"], ap) if a]


def coq_case(case, out):
    o = out.get("obs")
    bad = (not o) or out.get("err") or out.get("panic")
    tab = _tab(o["tab"]) if o and o.get("tab") else "[]"
    k = case["k"]
    if k == "fold":
        i = "IFold %s %d%%N %s" % (tab, case.get("coll", 0), _str(case["s"]))
        ob = "OBad" if bad else "OFold %s %s" % (_str(o.get("fold", [])), cq_list(_z(x) for x in o.get("toks", [])))
    elif k == "m1":
        i = "IM1 %s %d%%N %s %s" % (tab, case.get("coll", 0), _str(case["p"]), _str(case["s"]))
        ob = "OBad" if bad else "OM1 %s %s" % (_str(o.get("fold", [])), cq_bool(o.get("m", False)))
    elif k == "acc":
        i = "IAcc %s %s %s" % (tab, _ops(eff_ops(case, o)), _reqs(case["reqs"]))
        ob = "OBad" if bad else "OAcc %s %s" % (cq_list("(%s, %d%%N)" % (cq_bool(f), p) for f, p in zip(o.get("found", []), o.get("perms", []))),
                                                cq_list(_rule(r) for r in o.get("rows", [])))
    else:
        i = "INs %s %s %s" % (tab, _ops(eff_ops(case, o)), _reqs(case["reqs"]))
        ob = "OBad" if bad else "ONs %s %s" % (cq_list(cq_bool(b) for b in o.get("can", [])), cq_list(_rule(r) for r in o.get("rows", [])))
    return "(%s, %s)" % (i, ob)


# ---------------------------------------------------------------------------
# classification / known findings
# ---------------------------------------------------------------------------
def _has_special(q):
    return any(c in SPECIAL for col in q for c in col)


def _acc_diffs(case, o):
    tab = Tab(o["tab"])
    cur = current_rules(tab, eff_ops(case, o))
    diffs = []
    for i, q in enumerate(case["reqs"]):
        want = spec_access(tab, cur, q)
        got = (o["found"][i], o["perms"][i])
        if want != got:
            diffs.append(i)
    rows_ok = sorted((tuple(r["d"]), tuple(r["b"]), tuple(r["u"]), tuple(r["h"]), r["perm"]) for r in o.get("rows", [])) == \
        sorted(k + (p,) for k, p in cur.items())
    return cur, diffs, rows_ok


def _ns_diffs(case, o):
    tab = Tab(o["tab"])
    cur = current_rules(tab, eff_ops(case, o), by_tokens=False)
    diffs = [i for i, q in enumerate(case["reqs"]) if spec_can_create(tab, cur, q) != o["can"][i]]
    return cur, diffs


def _trie_tags(tab, ops, reqs):
    """shape of the (compressed) trie at each delete, computed on the concatenated token strings of the live rules"""
    def cat(k):
        a, b, c, d = tok_key(tab, k)
        return (-3,) + a + (-3,) + b + (-3,) + c + (-3,) + d
    tags = set()
    live = {}
    deleted = set()
    for op in ops:
        key = norm_key(tab, op)
        path = cat(key)
        if op["ins"]:
            live[path] = key
            deleted.discard(path)
            chain = [p for p in live if path[:len(p)] == p or p[:len(path)] == path]
            depth = sorted(chain, key=len)
            if len(depth) >= 3 and all(depth[i + 1][:len(depth[i])] == depth[i] for i in range(len(depth) - 1)):
                tags.add("trie-chain-depth3")
            continue
        if path not in live:
            continue
        others = [p for p in live if p != path]
        ext = [p for p in others if p[:len(path)] == path]
        if ext:
            tags.add("trie-delete-inner-rule")
            if len({p[len(path)] for p in ext}) == 1:
                tags.add("trie-inner-rule-absorbs-only-child")
        else:
            # compressed parent: the longest proper prefix of path that is a rule end or a branching point among the others
            best, best_rule, nchild = None, False, 0
            for ln in range(len(path) - 1, 0, -1):
                pre = path[:ln]
                nxt = {p[ln] for p in live if len(p) > ln and p[:ln] == pre}
                is_rule = pre in live
                if is_rule or len(nxt) >= 2:
                    best, best_rule, nchild = pre, is_rule, len(nxt)
                    break
            if best is not None:
                if best_rule and nchild == 2:
                    tags.add("trie-parent-rule-two-children-delete-leaf")
                elif best_rule and nchild == 1:
                    tags.add("trie-parent-rule-one-child-delete-leaf")
                elif not best_rule and nchild == 2:
                    tags.add("trie-absorb-last-child")
                elif nchild >= 3:
                    tags.add("trie-delete-leaf-of-wide-node")
        del live[path]
        deleted.add(path)
    for q in reqs:
        qpath = (-3,) + tuple(tab.ci(c) for c in q[0]) + (-3,) + tuple(tab.ci(c) for c in q[1]) + (-3,) + tuple(tab.bin(c) for c in q[2]) \
            + (-3,) + tuple(tab.ci(c) for c in q[3])
        if any(p[-len(q[3]):] == qpath[-len(q[3]):] for p in deleted if q[3]):
            tags.add("trie-probe-deleted-rule")
    return tags


def classify(case, out):
    o = out.get("obs")
    if not o or out.get("err") or out.get("panic"):
        return ["harness-error"]
    k = case["k"]
    t = []
    if k == "fold":
        f, n = fold(case["s"])
        t.append("fold-changed" if f != case["s"] else "fold-unchanged")
        if BS in case["s"]:
            t.append("fold-escape")
        if n > 2:
            t.append("fold-multipass")
        if not case["s"]:
            t.append("fold-empty")
    elif k == "m1":
        t.append("m1-match" if o.get("m") else "m1-nomatch")
        if case.get("coll") == 1:
            t.append("m1-bin")
        if BS in case["p"]:
            t.append("m1-escape")
        if not case["s"]:
            t.append("m1-empty-subject")
        if not case["p"]:
            t.append("m1-empty-pattern")
        tab = Tab(o["tab"])
        if o.get("m") and case.get("coll", 0) == 0 and not like_str(tab.bin, case["p"], case["s"]):
            s = "".join(chr(c) for c in case["s"])
            t.append("m1-accent" if ("é" in s or "É" in s or "e" in s or "E" in s) and any(c in (233, 201) for c in case["p"] + case["s"]) else "m1-casefold")
            if any(c in (233, 201) for c in case["p"] + case["s"]):
                t.append("m1-accent")
            t.append("m1-casefold")
        if PCT in case["p"]:
            t.append("m1-any")
        if US in case["p"]:
            t.append("m1-one")
    elif k == "acc":
        cur, diffs, rows_ok = _acc_diffs(case, o)
        tab = Tab(o["tab"])
        t += ["acc-found" if f else "acc-notfound" for f in o["found"]]
        if case.get("sql"):
            t.append("acc-sql")
        if any(not op["ins"] for op in case["ops"]):
            t.append("acc-delete")
        seen, dead = set(), set()
        if o.get("applied") and not all(o["applied"]):
            t.append("acc-sql-insert-rejected")
        for op in eff_ops(case, o):
            key = norm_key(tab, op)
            if op["ins"]:
                if key in dead:
                    t.append("acc-reinsert")
                seen.add(key)
            elif key in seen:
                dead.add(key)
                if (tuple(op["d"]), tuple(op["b"]), tuple(op["u"]), tuple(op["h"])) != key:
                    t.append("acc-respelled-key")
        for q in case["reqs"]:
            if _has_special(q):
                t.append("acc-special-in-request")
            ms = []
            for (d, b, u, h), perm in cur.items():
                if like_str(tab.ci, d, q[0]) and like_str(tab.ci, b, q[1]) and like_str(tab.bin, u, q[2]) and like_str(tab.ci, h, q[3]):
                    ms.append(4 + len(parse(tab.ci, d)) + len(parse(tab.ci, b)) + len(parse(tab.bin, u)) + len(parse(tab.ci, h)))
            if len(ms) > 1:
                top = max(ms)
                t.append("acc-tie-union" if ms.count(top) > 1 else "acc-longest-wins")
        if diffs:
            t.append("acc-differs-from-like")
        t.append("acc-rules-%d" % min(len(cur), 5))
        t += sorted(_trie_tags(tab, eff_ops(case, o), case["reqs"]))
        if case.get("fam"):
            t.append("trie-family")
            if case.get("sql"):
                t.append("trie-family-sql")
    else:
        cur, diffs = _ns_diffs(case, o)
        tab = Tab(o["tab"])
        for i, q in enumerate(case["reqs"]):
            restricted = any(like_str(tab.ci, k2[0], q[0]) and like_str(tab.ci, k2[1], q[1]) for k2 in cur)
            t.append("ns-unrestricted" if not restricted else ("ns-allowed" if o["can"][i] else "ns-denied"))
        if any(not op["ins"] for op in case["ops"]):
            t.append("ns-delete")
        if diffs:
            t.append("ns-differs-from-like")
    return sorted(set(t))


def nontrivial(case, out):
    k = case["k"]
    if k == "fold":
        return any(c in SPECIAL for c in case["s"])
    if k == "m1":
        return len(case["p"]) > 0
    return len(case["ops"]) > 0


def match_known(finding, case, out):
    o = out.get("obs")
    if not o or out.get("err") or out.get("panic"):
        return False
    key = finding.get("key")
    if key == KNOWN_KEY_REQ and case["k"] == "acc":
        # MatchNode.Match parses the request's database / branch / user / host with the expression parser: exactly the requests that
        # contain '%', '_' or '\' may deviate from LIKE; the table contents must still be right
        cur, diffs, rows_ok = _acc_diffs(case, o)
        return bool(diffs) and rows_ok and all(_has_special(case["reqs"][i]) for i in diffs)
    if key == KNOWN_KEY_TRAIL and case["k"] == "acc":
        # a rule whose host expression ends in '%' is missed when the request uses it with the '%' empty and that '%' starts a child node
        cur, diffs, rows_ok = _acc_diffs(case, o)
        if not diffs or not rows_ok:
            return False
        tab = Tab(o["tab"])

        def explained(q):
            for (d, b, u, h) in cur:
                ph = parse(tab.ci, h)
                if ph and ph[-1] == -2 and like_str(tab.ci, d, q[0]) and like_str(tab.ci, b, q[1]) and like_str(tab.bin, u, q[2]) \
                        and like(ph[:-1], [tab.ci(c) for c in q[3]]):
                    return True
            return False
        return all(explained(case["reqs"][i]) for i in diffs)
    if key == KNOWN_KEY_EMPTY:
        # Match() processes an empty subject as the single rune U+FFFD
        if case["k"] == "m1":
            tab = Tab(o["tab"])
            so = tab.bin if case.get("coll") == 1 else tab.ci
            return len(case["s"]) == 0 and bool(o.get("m")) != like_str(so, case["p"], case["s"])
        if case["k"] == "ns":
            cur, diffs = _ns_diffs(case, o)
            return bool(diffs) and all(any(len(col) == 0 for col in case["reqs"][i]) for i in diffs)
    return False


def shrink_candidates(case):
    k = case["k"]
    if k == "fold":
        s = case["s"]
        for i in range(len(s)):
            yield dict(case, s=s[:i] + s[i + 1:])
    elif k == "m1":
        for f in ("p", "s"):
            s = case[f]
            for i in range(len(s)):
                yield dict(case, **{f: s[:i] + s[i + 1:]})
    else:
        ops, reqs = case["ops"], case["reqs"]
        for i in range(len(reqs)):
            if len(reqs) > 1:
                yield dict(case, reqs=reqs[:i] + reqs[i + 1:])
        for i in range(len(ops)):
            yield dict(case, ops=ops[:i] + ops[i + 1:])


def neighbours(case, rng):
    out = []
    k = case["k"]
    for _ in range(80):
        if k == "fold":
            out.append(gen_fold(rng))
        elif k == "m1":
            out.append(gen_m1(rng))
        else:
            out.append(gen_table(rng, k, False if k == "acc" else True))
            if k == "acc":
                out.append(gen_trie_family(rng, False))
    return out


def search_cases(rng):
    return [gen_m1(rng) for _ in range(200)] + [gen_table(rng, "acc", False) for _ in range(100)] + [gen_trie_family(rng, False) for _ in range(150)]
