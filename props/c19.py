"""C19 — Merge bases and ancestor specs resolve as the commit graph dictates."""
from lib import vlib
from lib.vlib import cq_bytes, cq_list
from props import c18 as g

ID = "C19"
HARNESS_PKG = "c19"
HARNESS_RUNNER = "c19"
COQ_TARGETS = ["theories/C19/Corr.vo"]
COQ_CORR_MODULE = "Base.Str Graph.CommitDag C19.Model C19.Spec C19.Corr"
COQ_CASE_TYPE = "C19.Corr.case"
COQ_CHECK = "C19.Corr.check_case"
COQ_MODEL_OBS = "(fun c => C19.Corr.model_obs (fst c))"
COQ_SHARD = 40
DESIGN_REF = "§5 C19"
TECHNIQUE = ("Coq proof over all well-formed commit histories: the closure-iterator merge walk and the height-heap parents walk both return a "
             "maximal-height common ancestor, characterised as a function of the set of common ancestors (hence argument-order independent); "
             "ancestor-spec walks = iterated parent selection; fast-forward verdicts = ancestor relation; + in-Coq correspondence on real commit graphs")
LEVEL_TEXT = ("Proof (F/M): for every well-formed history and every pair of commits, the models of FindCommonAncestor (two descending closure "
              "iterators), findCommonAncestorUsingParentsList (two height heaps, least address among equals) and their dispatcher return a common "
              "ancestor-or-self of maximal height, none iff none exists, independent of argument order (each is the unique optimum of a total order "
              "on the set of common ancestors); GetAncestor walks equal iterated parent selection and fail exactly on an out-of-range index; "
              "CanFastForwardTo's five verdicts are characterised by the ancestor relation. Tied to the code by running both on random DAGs built "
              "through the datas/doltdb API (all ordered pairs on small graphs).")
LEVEL_NOTE = ("Trusted: Coq kernel, Go harness + Python glue. The parents-list walk's priority queue is modelled as the code has it: a slice used as a "
              "binary heap through container/heap (Push = append + up, Pop = swap + down + truncate; C19/HeapModel.v); hpush_correct / hpop_correct prove that "
              "up/down keep the heap order for any Less that is a total preorder, heap_root_is_max that MaxHeight()/Pop yield a commit of maximal height, and "
              "heap_refines_multiset that the walk over heaps equals the walk over multisets (the model used in the mb theorems); the correspondence runs the heap "
              "model. Modelled, not verified: Go map iteration + sort in findCommonCommit (least address of the intersection), the prolly map iterator behind "
              "IterAllReverse (descending key order, from C18's sorted closure), branch / hash lookup in DoltDB.Resolve (each commit is the head of its own branch; "
              "the base name is handed to the model). The closure walk picks the greatest address among equal-height candidates and the parents walk the least: both "
              "are deterministic and order independent, which is what the property demands; they can differ from each other (tag 'variants-differ'). "
              "FindClosureCommonAncestor is test-only code and is not modelled. SQL surface: for histories built with dolt_commit / dolt_merge --no-ff / dolt_branch, "
              "dolt_merge_base() and spec resolution through dolt_hashof(), dolt_log(rev) and AS OF (row set of a table with one row per commit) are compared with "
              "the model; through SQL a rejected spec and a walk leaving the graph have the same error text and are told apart with the doltdb-level error. "
              "oracle_accepts_model assumes, per case and checkable, that C44's parser splits '<base><suffix>' into base + parse_instructions(suffix) "
              "(C44's own theorem for every accepted spec).")
THEOREMS = ["mb_common", "mb_maximal", "mb_sym", "mb_none_iff", "fca_total", "mb_closure_spec", "mb_parents_spec", "mb_closure_sym",
            "mb_parents_sym", "spec_walk_thm", "walk_app", "walk_repeat_first_parent", "can_ff_spec", "can_ff_true_iff",
            "hpush_correct", "hpop_correct", "heap_root_is_max", "heap_refines_multiset", "oracle_accepts_model"]
RULE = ("the C18 DAG generators (5-60 commits; criss-cross ladders, multi-parent merges, duplicate parents, several roots); all ordered pairs when the "
        "graph has <= 9 commits, otherwise ~110 sampled ordered pairs always together with the swapped pair; specs 'b<i>' + 0-4 of ^ ^1 ^2 ^3 ^0 ~ ~n; "
        "non-trivial = some pair has a merge base different from both commits; distinct by graph + salt")
ASSUMPTIONS = ["every commit is the head of its own branch b<i> (so DoltDB.CanFastForward and Resolve see it)",
               "SQL-built histories have one root and at most two distinct parents per commit (what dolt_merge can create)",
               "'~n' counts in generated specs stay below 100"]
REQUIRED_TAGS = ["mb-none", "mb-third", "mb-is-arg", "tie-at-max-height", "variants-differ", "root-dispatch", "spec-ok", "spec-walk-error",
                 "spec-parse-error", "spec-second-parent", "ff-ok", "ff-uptodate", "ff-ahead", "ff-diverged", "ff-noancestor",
                 "merge-first-parent-lower", "root-arg", "two-roots",
                 "tilde0-alone", "tilde0-repeated", "tilde0-after-caret", "tilde0-on-root", "tilde0-on-hash", "spec-on-hash",
                 "sql", "sql-mb-third", "sql-spec-ok", "sql-spec-error"]


def _first_lower_merges(h):
    hs = g.heights(h)
    return [i for i, ps in enumerate(h) if len(ps) >= 2 and hs[ps[0]] < max(hs[p] for p in ps[1:])]


def gen_pairs(rng, h, tier):
    n = len(h)
    if n <= 9:
        return [[a, b] for a in range(n) for b in range(n)]
    out = []
    want = 50 if tier == "quick" else 150
    roots = [i for i, ps in enumerate(h) if not ps]
    special = _first_lower_merges(h)[:6] + roots[:4]
    for a in special:                      # merges whose first parent is lower, and roots, as arguments
        b = rng.randrange(n)
        out += [[a, b], [b, a]]
    for a in roots[:3]:
        for b in roots[:3]:
            out.append([a, b])             # two (un)related roots
    for _ in range(want):
        a = rng.randrange(n)
        b = rng.randrange(n) if rng.random() < 0.7 else max(0, min(n - 1, a + rng.randint(-3, 3)))
        out.append([a, b])
        out.append([b, a])
    return out


def gen_suffix(rng):
    k = rng.random()
    if k < 0.22:                           # ~0 : zero first-parent steps
        return list(rng.choice([b"~0", b"~0", b"~0~0", b"~0~0~0", b"^~0", b"^2~0", b"^1~0", b"~0^", b"~0^2", b"~1~0", b"~00", b"~0~1"]))
    s = b""
    for _ in range(rng.choice([0, 1, 1, 2, 2, 3, 4])):
        s += rng.choice([b"^", b"^", b"^1", b"^2", b"^2", b"~", b"~", b"~1", b"~2", b"~3", b"~7", b"~0", b"^3", b"^0", b"~25", b"^02", b"~99999999999999999999"]
                        if rng.random() < 0.9 else [b"^", b"~", b"^2", b"~2"])
    return list(s)


def gen_specs(rng, h, tier):
    n = len(h)
    k = 16 if tier == "quick" else 40
    roots = [i for i, ps in enumerate(h) if not ps]
    out = []
    for _ in range(k):
        start = rng.randrange(n) if rng.random() < 0.5 else rng.randrange(max(0, n - 4), n)
        out.append({"start": start, "suffix": gen_suffix(rng), "hash": rng.random() < 0.25})
    out.append({"start": rng.choice(roots), "suffix": list(rng.choice([b"~0", b"~0~0"])), "hash": False})    # ~0 on a root
    out.append({"start": rng.randrange(n), "suffix": list(b"~0"), "hash": True})                             # ~0 on a hash
    out.append({"start": rng.randrange(n), "suffix": list(b"~0"), "hash": False})                            # ~0 alone
    return out


def mk_case(rng, h, tier, sql=False):
    c = {"h": h, "salt": rng.randrange(1 << 30), "pairs": gen_pairs(rng, h, tier), "specs": gen_specs(rng, h, tier)}
    if sql:
        c["sql"] = True
    return c


def gen_sql_dag(rng, n):
    """shapes the SQL surface can create: one root, one parent or two distinct parents [p, q] with q not an ancestor-or-equal of p"""
    h = [[]]
    while len(h) < n:
        i = len(h)
        anc = g.ancestors_sets(h)
        if i >= 2 and rng.random() < 0.45:
            p = rng.randrange(i)
            cands = [q for q in range(i) if q != p and q not in anc[p]]
            if cands:
                h.append([p, rng.choice(cands)])
                continue
        h.append([rng.randrange(max(0, i - 4), i)])
    return h


EXTRA_FIXED = [
    [[], [0], [1], [0, 2], [], [3, 4], [4, 3]],        # merge whose first parent (height 1) is lower than the second (height 3); two roots
    [[], [], [], [0, 1], [1, 2], [3, 4], [2]],          # three roots
]


def gen_cases(rng, tier):
    n = 56 if tier == "quick" else 2000
    cases = [mk_case(rng, h, tier) for h in g.FIXED + EXTRA_FIXED]
    cases.append(mk_case(rng, g.gen_crisscross(rng, 40), tier))
    cases.append(mk_case(rng, g.gen_multiroot(rng, 60), tier))
    cases.append(mk_case(rng, g.gen_chain(rng, 30), tier))
    for _ in range(6 if tier == "quick" else 60):
        cases.append(mk_case(rng, gen_sql_dag(rng, rng.choice([5, 6, 8, 9, 12, 16])), tier, sql=True))
    cases.append(mk_case(rng, [[], [0], [0], [1, 2], [2, 1], [3], [4], [5, 6]], tier, sql=True))
    while len(cases) < n:
        big = tier != "quick" and rng.random() < 0.15
        small = rng.random() < 0.45
        sz = rng.choice([40, 50, 60]) if big else (rng.choice([5, 6, 7, 8, 9]) if small else None)
        cases.append(mk_case(rng, g.gen_dag(rng, sz), tier))
    return cases


def _mbcode(x):
    return "0" if x == -2 else str(x + 2)


def coq_case(case, out):
    o = out.get("obs")
    h = case["h"]
    pairs = cq_list("(%d,%d)" % (p[0], p[1]) for p in case["pairs"])
    bases = (o or {}).get("bases") or [[98] + [ord(ch) for ch in str(s["start"])] for s in case["specs"]]
    specs = cq_list("((%d,%s),%s)" % (s["start"], cq_bytes(b), cq_bytes(s["suffix"])) for s, b in zip(case["specs"], bases))
    if o is None:
        return "((((%s, %s), %s), %s), {| o_mb := []; o_mbp := []; o_mbd := []; o_ff := [9]; o_specs := [] |})" % (
            g.cq_hist(h), cq_list(str(i) for i in range(len(h))), pairs, specs)
    return "((((%s, %s), %s), %s), {| o_mb := %s; o_mbp := %s; o_mbd := %s; o_ff := %s; o_specs := %s |})" % (
        g.cq_hist(h), cq_list(str(r) for r in o["rank"]), pairs, specs,
        cq_list(_mbcode(x) for x in o["mb"]), cq_list(_mbcode(x) for x in o["mbp"]), cq_list(_mbcode(x) for x in o["mbd"]),
        cq_list(str(x) for x in o["ff"]), cq_list("(%d,%d)" % (s[0], s[1]) for s in o["specs"]))


def classify(case, out):
    o = out.get("obs")
    if o is None:
        return ["panic" if out.get("panic") else "harness-error"]
    h = case["h"]
    n = len(h)
    t = ["n<=9-all-pairs" if n <= 9 else "n<=30" if n <= 30 else "n<=60"]
    anc = g.ancestors_sets(h)
    hs = g.heights(h)
    for (a, b), r, rp in zip(case["pairs"], o["mb"], o["mbp"]):
        if r == -1:
            t.append("mb-none")
        elif r in (a, b):
            t.append("mb-is-arg")
        else:
            t.append("mb-third")
        if r != rp:
            t.append("variants-differ")
        com = (anc[a] | {a}) & (anc[b] | {b})
        if com:
            m = max(hs[x] for x in com)
            if sum(1 for x in com if hs[x] == m) >= 2:
                t.append("tie-at-max-height")
        if (not h[a] or not h[b]):
            t.append("root-dispatch")
    roots = set(i for i, ps in enumerate(h) if not ps)
    fl = set(_first_lower_merges(h))
    for a, b in case["pairs"]:
        if a in roots or b in roots:
            t.append("root-arg")
        if a in roots and b in roots and a != b:
            t.append("two-roots")
        if a in fl or b in fl:
            t.append("merge-first-parent-lower")
    if case.get("sql"):
        t.append("sql")
        if any(r not in (-1, a, b) for (a, b), r in zip(case["pairs"], o["mbd"])):
            t.append("sql-mb-third")
    for code in o["ff"]:
        t.append(["ff-ok", "ff-uptodate", "ff-ahead", "ff-diverged", "ff-noancestor", "ff-other"][min(code, 5)])
    for s, r in zip(case["specs"], o["specs"]):
        t.append(["spec-ok", "spec-parse-error", "spec-walk-error", "spec-other-error"][min(r[0], 3)])
        suf = bytes(s["suffix"])
        if r[0] == 0 and suf.count(b"^2"):
            t.append("spec-second-parent")
        if case.get("sql"):
            t.append("sql-spec-ok" if r[0] == 0 else "sql-spec-error")
        if suf and suf.replace(b"~0", b"") == b"" and r[0] == 0:
            t.append("tilde0-alone" if suf == b"~0" else "tilde0-repeated")
            if s["start"] in roots:
                t.append("tilde0-on-root")
            if s.get("hash"):
                t.append("tilde0-on-hash")
        if (b"^~0" in suf or b"^1~0" in suf or b"^2~0" in suf) and r[0] == 0:
            t.append("tilde0-after-caret")
        if s.get("hash"):
            t.append("spec-on-hash")
    return sorted(set(t))


def nontrivial(case, out):
    o = out.get("obs")
    if o is None:
        return False
    return any(r not in (-1, a, b) for (a, b), r in zip(case["pairs"], o["mb"]))


def shrink_candidates(case):
    h = case["h"]
    # fewer pairs / specs first, then smaller graphs (pairs and specs that mention a dropped commit are removed)
    if len(case["pairs"]) > 1:
        half = len(case["pairs"]) // 2
        yield dict(case, pairs=case["pairs"][:half])
        yield dict(case, pairs=case["pairs"][half:])
    if len(case["specs"]) > 0:
        half = len(case["specs"]) // 2
        yield dict(case, specs=case["specs"][:half])
        yield dict(case, specs=case["specs"][half:] if half else [])
    for d in range(len(h) - 1, -1, -1):
        if len(h) <= 1:
            break

        def ren(x):
            return x - 1 if x > d else x
        pairs = [[ren(a), ren(b)] for a, b in case["pairs"] if a != d and b != d]
        specs = [{"start": ren(s["start"]), "suffix": s["suffix"], "hash": s.get("hash", False)} for s in case["specs"] if s["start"] != d]
        if not case.get("sql"):
            yield {"h": g._renumber_drop(h, d), "salt": case.get("salt", 0), "pairs": pairs, "specs": specs}


def neighbours(case, rng):
    out = []
    for c in g.neighbours({"h": case["h"], "salt": 0}, rng)[:20]:
        out.append(mk_case(rng, c["h"], "quick"))
    return out


def search_cases(rng):
    return [mk_case(rng, g.gen_dag(rng, rng.choice([5, 6, 7, 8, 9])), "quick") for _ in range(40)]
