"""C42 — Blobstores provide a correct conditional manifest update and byte ranges."""
import copy

from lib import vlib
from lib.vlib import cq_bytes, cq_list, cq_Z

ID = "C42"
HARNESS_PKG = "c42"
HARNESS_RUNNER = "c42"
COQ_TARGETS = ["theories/C42/Corr.vo"]
COQ_CORR_MODULE = "Base.Str C42.Model C42.Spec C42.NbsModel C42.Corr"
COQ_CASE_TYPE = "C42.Corr.case"
COQ_CHECK = "C42.Corr.check_case"
COQ_MODEL_OBS = "(fun c => C42.Corr.model_obs (fst c))"
COQ_SHARD = 150
DESIGN_REF = "§5 C42"
TECHNIQUE = ("Coq proof (atomic-step model of the in-memory and local blobstores; CAS register linearizability over all schedules, "
             "one winner per expected version, exact window for every (offset,length), concatenation) + in-Coq correspondence incl. concurrent writers")
LEVEL_TEXT = ("Proof (F/P): over the model (key -> (version, bytes); one atomic step per API call) it is proved for every schedule list (client*op) that the "
              "manifest history is a legal sequential CAS-register history, that a failed CheckAndPut changes nothing, that among conditional writers "
              "no two winners share an expected version (under versions_distinct) and that n writers with the current version have exactly one winner; "
              "that Get returns exactly the window of the BlobRange for every blob/offset/length with in-range start (and the exact out-of-range behaviour "
              "of each backend); that Concatenate stores the concatenation; that a NomsBlockStore whose manifest is a blob updated by CheckAndPut produces, for every "
              "history of Put/Rebase/Commit steps of any number of clients, exactly the observations of the store with a file manifest (bs_store_same_semantics, at "
              "manifest.Update granularity; read_then_cap_is_atomic carries the read..CheckAndPut window under versions_distinct). Partial: version freshness is the hypothesis versions_distinct, measured on "
              "every run; atomicity of a step is the backend's lock (modelled, exercised by the concurrent sub-cases); git/remote backends not exercised.")
LEVEL_NOTE = ("Trusted: Coq kernel, translator (constants only: positiveRange/isAllRange are outside its func grammar — receiver selectors, signed "
              "arithmetic — and are hand-modelled, tied by the correspondence incl. an exhaustive small (offset,length) sweep), Go harness + Python glue "
              "(incl. the reconstruction of the linearisation order of the concurrent group from observed versions). Modelled, not verified: sync.RWMutex, "
              "fslock/flock, rename atomicity, mtime resolution (versions_distinct). LocalBlobstore.Put of the manifest key does not take the file lock: "
              "the model's atomic steps cover CheckAndPutManifest writers and readers only, which is how NBS uses it. "
              "NBS sub-model: table files, memtable and conjoin are abstracted (C02's subject); interleavings inside one manifest.Update (read / CheckAndPut / re-read) "
              "are covered by read_then_cap_is_atomic + failed_cap_changes_nothing, not by a full refinement (A-B-A on contents yields a spurious retry). "
              "GitBlobstore: exercised on the manifest key with two clients of one bare remote in /tmp (sequential CAS, ranges, and a foreign CheckAndPut injected between "
              "a client's fetch/validate and its push through the add-only hook go/store/blobstore/verif_export_c42.go); its retry loop is modelled and proved to be one "
              "CAS at the state of the successful push (git_cap_retry_is_cas). Not modelled: Put of a non-manifest key (idempotent, deferred until the next "
              "CheckAndPutManifest), chunked objects, read staleness within SyncForReadTTL. The reader/writer stress (local-get-pair-stress) is statistical.")
THEOREMS = ["cap_is_cas", "failed_cap_changes_nothing", "cap_succeeds_iff_expected_is_current", "one_winner_per_expected_version",
            "exactly_one_winner", "range_spec_inmem", "range_spec_local", "range_spec_nonneg", "range_spec_suffix", "spec_slice_is_window",
            "range_out_of_range_inmem", "range_out_of_range_local", "concat_spec", "concat_missing_source_local",
            "concat_missing_source_is_error_refuted", "read_then_cap_is_atomic", "read_then_cap_is_atomic_without_versions_distinct_refuted",
            "bs_update_refines_local", "bs_store_same_semantics",
            "range_spec_git", "range_out_of_range_git", "git_cap_retry_is_cas", "git_cap_success_only_if_expected_at_push",
            "git_cap_validate_once_refuted", "get_pair_is_a_state", "manifest_pair_was_written", "oracle_on_model"]
REFUTED = ["concat_missing_source_is_error_refuted (InMemoryBlobstore.Concatenate treats a missing source as empty instead of failing)",
           "read_then_cap_is_atomic_without_versions_distinct_refuted (with a reused version a stale CheckAndPut wins and overwrites: "
           "what known finding blobstore.local:mtime-version-collision permits)",
           "git_cap_validate_once_refuted (a lease-retry loop that validates the expected version only on its first attempt is not a CAS; "
           "the real loop re-validates on every attempt: git_cap_retry_is_cas; exercised by tag git-cas-retry-after-foreign-push)"]
RULE = ("op sequences Put/Get(range)/CheckAndPutManifest/Concatenate on 4 keys against a fresh in-memory or local blobstore; ranges drawn from boundaries "
        "(0, size, size+-1, negative offsets up to and beyond -size, length overshoots, length 0) plus an exhaustive (offset,length) sweep over small sizes; "
        "concurrent groups of n goroutines CheckAndPut with the same expected version (current or stale) with concurrent readers; non-trivial = at least one "
        "write and one read or conditional write; distinct by case content. NBS sub-case: Put/Rebase/Commit histories of 1-2 clients run on NomsBlockStores over an "
        "InMemoryBlobstore, over a LocalBlobstore and on a local directory store; every client puts its own globally fresh chunks and commits one of its own chunks "
        "(or the empty root / a dangling one), so the two known C02 patterns (identical concurrent commits) cannot arise; Commit(x,x) with nothing novel is generated "
        "and is treated identically by all three stores and the model. Git sub-case: two GitBlobstore clients on one bare remote, CheckAndPutManifest with current / stale / "
        "bogus expectations, contents from a small space so that versions come back, ranged reads, and races where the other client's CheckAndPut lands right before the "
        "acting client's first push. Stress sub-case: 100 counter-valued CheckAndPutManifest updates by one writer against 8 spinning readers on a LocalBlobstore")
ASSUMPTIONS = ["versions_distinct: a new write gets a non-empty version different from all earlier versions of that key (uuid / mtime with the 10 ms sleep); measured by the oracle on every run",
               "each API call is one atomic step (backend lock); unconditional Put of the manifest key is not raced against CheckAndPutManifest on the local backend",
               "blob sizes and offsets are far below 2^63 (no int64 overflow in positiveRange)",
               "git: versions are object ids (identical contents <=> identical version, measured by the oracle instead of freshness); SyncForReadTTL is set to 1ns by the "
               "verif constructor so that every manifest read fetches; only the manifest key is exercised (Puts of other keys are idempotent and deferred)",
               "stress: which (version, contents) pairs the readers catch is scheduling; required is only that every pair was installed by the writer"]
REQUIRED_TAGS = ["backend-inmem", "backend-local", "get-inrange", "get-suffix", "get-len-overshoot", "get-at-end", "get-empty-blob", "get-notfound",
                 "get-neglen", "inmem-panic-beyond-end", "inmem-panic-neg-beyond", "local-empty-beyond-end", "local-err-neg-beyond",
                 "cap-win", "cap-lose", "cap-on-absent", "conc", "conc-one-winner", "conc-stale-no-winner", "conc-reader",
                 "cat", "cat-missing-inmem-silent", "cat-missing-local-err", "cat-over-batch",
                 "git", "git-cas-retry-after-foreign-push", "git-cap-win", "git-cap-casfail", "git-aba-version-returns", "git-get-ok", "git-get-err",
                 "local-get-pair-stress",
                 "nbs", "nbs-commit-ok", "nbs-commit-lost-race", "nbs-commit-retry-after-rebase", "nbs-dangling", "nbs-two-clients", "nbs-noop-commit"]

NKEYS = 4


def _data(rng, n=None):
    if n is None:
        n = rng.choice([0, 0, 1, 2, 3, 5, 8, 13])
    return [rng.randrange(256) for _ in range(n)]


def _range(rng, size):
    offs = [0, 0, 1, size - 1, size, size + 1, size + 4, -1, -2, -size + 1, -size, -size - 1, -size - 3, rng.randint(-size - 2, size + 2)]
    lens = [0, 0, 1, 2, size - 1, size, size + 1, size + 7, rng.randint(0, size + 3)]
    off = rng.choice(offs)
    ln = rng.choice(lens)
    if ln < 0:
        ln = 0
    if rng.random() < 0.03:
        ln = -rng.randint(1, 3)
    return off, ln


def gen_range_case(rng, backend):
    size = rng.choice([0, 1, 2, 3, 5, 8, 12, 20])
    k = rng.randrange(NKEYS)
    pre = [{"op": "put", "k": k, "data": _data(rng, size)}]
    for _ in range(rng.randint(6, 14)):
        off, ln = _range(rng, size)
        kk = k if rng.random() < 0.93 else (k + 1) % NKEYS
        pre.append({"op": "get", "k": kk, "off": off, "len": ln})
    return {"backend": backend, "pre": pre, "conc": [], "post": []}


def gen_sweep_cases(backend, sizes):
    out = []
    for size in sizes:
        data = [(17 * i + 3) % 256 for i in range(size)]
        gets = [{"op": "get", "k": 1, "off": off, "len": ln} for off in range(-size - 2, size + 3) for ln in range(0, size + 3)]
        for j in range(0, len(gets), 60):
            out.append({"backend": backend, "pre": [{"op": "put", "k": 1, "data": data}] + gets[j:j + 60], "conc": [], "post": []})
    return out


def gen_seq_case(rng, backend):
    ops = []
    sizes = {}
    writes = []   # flat indexes of ops that may return a version for the manifest
    n = rng.randint(4, 12) if backend == "inmem" else rng.randint(3, 8)
    for i in range(n):
        r = rng.random()
        if r < 0.25:
            k = rng.randrange(NKEYS)
            d = _data(rng)
            ops.append({"op": "put", "k": k, "data": d})
            sizes[k] = len(d)
            if k == 0:
                writes.append(i)
        elif r < 0.5:
            k = rng.randrange(NKEYS)
            off, ln = _range(rng, sizes.get(k, 3))
            ops.append({"op": "get", "k": k, "off": off, "len": ln})
        elif r < 0.82:
            e = rng.random()
            if e < 0.5:
                op = {"op": "cap", "exp": "cur", "data": _data(rng)}
            elif e < 0.65:
                op = {"op": "cap", "exp": "empty", "data": _data(rng)}
            elif e < 0.75:
                op = {"op": "cap", "exp": "bogus", "data": _data(rng)}
            elif writes:
                op = {"op": "cap", "exp": "ref", "ref": rng.choice(writes), "data": _data(rng)}
            else:
                op = {"op": "cap", "exp": "empty", "data": _data(rng)}
            ops.append(op)
            sizes[0] = len(op["data"])     # may be wrong when the cap loses; only steers range choice
            writes.append(i)
        else:
            k = rng.randrange(NKEYS)
            srcs = [rng.randrange(NKEYS) for _ in range(rng.choice([0, 1, 2, 2, 3, 4]))]
            ops.append({"op": "cat", "k": k, "srcs": srcs})
            sizes[k] = sum(sizes.get(s, 0) for s in srcs)
            if k == 0:
                writes.append(i)
    return {"backend": backend, "pre": ops, "conc": [], "post": [{"op": "get", "k": 0, "off": 0, "len": 0}]}


def gen_cat_case(rng, backend, big=False):
    pre = []
    have = []
    for k in range(1, NKEYS):
        if rng.random() < 0.75:
            pre.append({"op": "put", "k": k, "data": _data(rng, rng.choice([0, 1, 2, 3]) if big else None)})
            have.append(k)
    if not have:
        pre.append({"op": "put", "k": 1, "data": _data(rng, 2)})
        have.append(1)
    if big:
        srcs = [rng.choice(have) for _ in range(rng.choice([32, 33, 40, 65]))]
    else:
        srcs = [rng.randrange(1, NKEYS) for _ in range(rng.randint(1, 5))]
    k = rng.choice([0, 1, 2, 3])
    pre.append({"op": "cat", "k": k, "srcs": srcs})
    pre.append({"op": "get", "k": k, "off": 0, "len": 0})
    off, ln = _range(rng, 6)
    pre.append({"op": "get", "k": k, "off": off, "len": ln})
    for s in sorted(set(srcs))[:2]:
        pre.append({"op": "get", "k": s, "off": 0, "len": 0})
    return {"backend": backend, "pre": pre, "conc": [], "post": []}


def gen_conc_case(rng, backend):
    pre = []
    mode = rng.choice(["absent", "cap", "cap2", "put"])
    if mode == "cap":
        pre.append({"op": "cap", "exp": "empty", "data": _data(rng, 2)})
    elif mode == "cap2":
        pre.append({"op": "cap", "exp": "empty", "data": _data(rng, 2)})
        pre.append({"op": "cap", "exp": "cur", "data": _data(rng, 3)})
    elif mode == "put":
        pre.append({"op": "put", "k": 0, "data": _data(rng, 2)})
    n = rng.randint(2, 8) if backend == "inmem" else rng.randint(2, 5)
    kind = rng.random()
    if kind < 0.7:
        exp = {"exp": "cur"}
    elif kind < 0.8 and mode == "cap2":
        exp = {"exp": "ref", "ref": 0}            # stale: the version before the last one
    elif kind < 0.9:
        exp = {"exp": "bogus"}
    else:
        exp = {"exp": "empty"}                     # stale unless the manifest is absent
    conc = []
    for i in range(n):
        op = {"op": "cap", "data": [200 + i, i]}
        op.update(exp)
        conc.append(op)
    for _ in range(rng.choice([0, 1, 2])):
        conc.insert(rng.randint(0, len(conc)), {"op": "get", "k": 0, "off": rng.choice([0, 0, -1, 1]), "len": rng.choice([0, 0, 1])})
    post = [{"op": "get", "k": 0, "off": 0, "len": 0}, {"op": "cap", "exp": "cur", "data": [9]}, {"op": "get", "k": 0, "off": 0, "len": 0}]
    return {"backend": backend, "pre": pre, "conc": conc, "post": post}


FIXED = [
    # the refuted full statement "a missing source is an error": replayed on both backends on every run
    {"backend": "inmem", "pre": [{"op": "put", "k": 1, "data": [1, 2]}, {"op": "cat", "k": 3, "srcs": [1, 2, 1]}, {"op": "get", "k": 3, "off": 0, "len": 0}], "conc": [], "post": []},
    {"backend": "local", "pre": [{"op": "put", "k": 1, "data": [1, 2]}, {"op": "cat", "k": 3, "srcs": [1, 2, 1]}, {"op": "get", "k": 3, "off": 0, "len": 0}], "conc": [], "post": []},
    # out-of-range starts: in-memory panics, local clamps / errors
    {"backend": "inmem", "pre": [{"op": "put", "k": 1, "data": [1, 2, 3, 4, 5]}] + [{"op": "get", "k": 1, "off": o, "len": l} for o, l in
                                                                                   [(5, 0), (6, 0), (6, 2), (-5, 0), (-6, 0), (-6, 2), (2, 10), (-2, 1), (0, -1), (5, 3), (0, 5), (0, 6)]], "conc": [], "post": []},
    {"backend": "local", "pre": [{"op": "put", "k": 1, "data": [1, 2, 3, 4, 5]}] + [{"op": "get", "k": 1, "off": o, "len": l} for o, l in
                                                                                   [(5, 0), (6, 0), (6, 2), (-5, 0), (-6, 0), (-6, 2), (2, 10), (-2, 1), (0, -1), (5, 3), (0, 5), (0, 6)]], "conc": [], "post": []},
    # stale expected version after ABA-like sequence of writes
    {"backend": "inmem", "pre": [{"op": "cap", "exp": "empty", "data": [1]}, {"op": "cap", "exp": "cur", "data": [2]}, {"op": "cap", "exp": "ref", "ref": 0, "data": [3]},
                                 {"op": "cap", "exp": "ref", "ref": 1, "data": [1]}, {"op": "cap", "exp": "ref", "ref": 1, "data": [5]}], "conc": [], "post": [{"op": "get", "k": 0, "off": 0, "len": 0}]},
]


def gen_cases(rng, tier):
    quick = tier == "quick"
    cases = [copy.deepcopy(c) for c in FIXED]
    cases += gen_sweep_cases("inmem", range(0, 5) if quick else range(0, 40))
    cases += gen_sweep_cases("local", range(0, 4) if quick else range(0, 40))
    n_range = (40, 25) if quick else (1500, 600)
    n_seq = (70, 40) if quick else (4000, 1000)
    n_cat = (16, 12) if quick else (400, 200)
    n_conc = (40, 25) if quick else (3000, 800)
    for be, idx in (("inmem", 0), ("local", 1)):
        for _ in range(n_range[idx]):
            cases.append(gen_range_case(rng, be))
        for _ in range(n_seq[idx]):
            cases.append(gen_seq_case(rng, be))
        for j in range(n_cat[idx]):
            cases.append(gen_cat_case(rng, be, big=(j % 5 == 0)))
        for _ in range(n_conc[idx]):
            cases.append(gen_conc_case(rng, be))
    cases += [copy.deepcopy(c) for c in NBS_FIXED]
    for _ in range(40 if quick else 2500):
        cases.append(gen_nbs_case(rng))
    cases += [copy.deepcopy(c) for c in GIT_FIXED]
    for _ in range(0 if quick else 30):
        cases.append(gen_git_case(rng))
    for _ in range(1 if quick else 6):
        cases.append({"kind": "stress", "backend": "local", "updates": 100 if quick else 400, "readers": 8})
    return cases


# ---------------------------------------------------------------------------
# NBS on a blobstore
# ---------------------------------------------------------------------------
def gen_nbs_case(rng):
    n = rng.choice([1, 2, 2, 2])
    ops = []
    nxt = [1]
    own = {c: [] for c in range(n)}        # chunks put by client c (globally fresh ids)
    uncommitted = {c: [] for c in range(n)}
    roots = [0]                            # roots ever proposed
    for _ in range(rng.randint(4, 12)):
        c = rng.randrange(n)
        r = rng.random()
        if r < 0.35:
            x = nxt[0]; nxt[0] += 1
            own[c].append(x); uncommitted[c].append(x)
            ops.append({"c": c, "op": "put", "x": x})
        elif r < 0.45:
            ops.append({"c": c, "op": "rebase"})
        else:
            k = rng.random()
            if uncommitted[c] and k < 0.75:
                cur = rng.choice(uncommitted[c])          # a chunk of its own, put since its last successful commit
            elif k < 0.85:
                cur = 0
            elif k < 0.93:
                cur = 900 + rng.randrange(3)              # never put: dangling
            elif own[c]:
                cur = rng.choice(own[c])
            else:
                cur = 0
            l = rng.random()
            if l < 0.7:
                last = -1
            elif l < 0.85:
                last = rng.choice(roots)
            else:
                last = cur if cur < 900 else -1           # Commit(x, x)
            ops.append({"c": c, "op": "commit", "cur": cur, "last": last})
            if cur < 900:
                roots.append(cur)
    univ = list(range(1, nxt[0])) + [900, 901, 902]
    return {"kind": "nbs", "n": n, "univ": univ, "ops": ops}


NBS_FIXED = [
    {"kind": "nbs", "n": 2, "univ": [1, 2, 3, 4, 5], "ops": [
        {"c": 0, "op": "put", "x": 1}, {"c": 0, "op": "commit", "cur": 1, "last": -1}, {"c": 1, "op": "put", "x": 2},
        {"c": 1, "op": "commit", "cur": 2, "last": -1}, {"c": 1, "op": "commit", "cur": 2, "last": -1}, {"c": 0, "op": "put", "x": 3},
        {"c": 0, "op": "commit", "cur": 4, "last": -1}, {"c": 0, "op": "commit", "cur": 0, "last": 0}, {"c": 0, "op": "rebase"},
        {"c": 0, "op": "commit", "cur": 3, "last": 2}, {"c": 1, "op": "commit", "cur": 2, "last": 2}]},
]


def _nbs_op_term(i, op):
    if op["op"] == "put":
        return "(%d%%nat, NPut %d)" % (op["c"], op["x"])
    if op["op"] == "rebase":
        return "(%d%%nat, NRebase)" % op["c"]
    last = "None" if op["last"] < 0 else "(Some %d)" % op["last"]
    return "(%d%%nat, NCommit %d %s %d %d)" % (op["c"], op["cur"], last, 2 * i + 1, 2 * i + 2)


def _nbs_steps_term(steps):
    return cq_list("{| no_res := %d; no_croot := %d; no_droot := %d; no_froot := %d; no_fhas := %s |}" %
                   (s["res"], s["croot"], s["droot"], s["froot"], cq_bytes(s["fhas"])) for s in steps)


def _nbs_coq_case(case, out):
    inp = "INbs %d%%nat %s %s" % (case["n"], cq_bytes(case["univ"]), cq_list(_nbs_op_term(i, op) for i, op in enumerate(case["ops"])))
    o = out.get("obs") if out else None
    if o is None:
        return "(%s, ONbs [] [] [])" % inp
    return "(%s, ONbs %s %s %s)" % (inp, _nbs_steps_term(o["bsinmem"]), _nbs_steps_term(o["bslocal"]), _nbs_steps_term(o["local"]))


def _nbs_classify(case, o):
    t = {"nbs"}
    if case["n"] > 1 and len({op["c"] for op in case["ops"]}) > 1:
        t.add("nbs-two-clients")
    prev_false = {}
    for op, s in zip(case["ops"], o["local"]):
        if op["op"] != "commit":
            continue
        if s["res"] == 0:
            t.add("nbs-commit-ok")
            if prev_false.get(op["c"]):
                t.add("nbs-commit-retry-after-rebase")
            if op["last"] == op["cur"]:
                t.add("nbs-noop-commit")
            prev_false[op["c"]] = False
        elif s["res"] == 1:
            t.add("nbs-commit-lost-race"); prev_false[op["c"]] = True
        elif s["res"] == 2:
            t.add("nbs-dangling")
        else:
            t.add("nbs-other-error")
    for k in ("bsinmem", "bslocal"):
        if o[k] != o["local"]:
            t.add("nbs-DIFFERS-" + k)
    return sorted(t)


# ---------------------------------------------------------------------------
# GitBlobstore (two clients of one bare remote) and the reader/writer stress
# ---------------------------------------------------------------------------
def _b(s):
    return list(s)


GIT_FIXED = [
    # foreign client replaces the manifest between the acting client's fetch/validate and its push
    {"kind": "git", "ops": [
        {"c": 0, "op": "cap", "exp": "empty", "data": _b(b"base\n")},
        {"c": 0, "op": "race", "exp": "cur", "data": _b(b"from A\n"), "fexp": "cur", "fdata": _b(b"from B\n")},
        {"c": 1, "op": "get", "off": 0, "len": 0},
        {"c": 0, "op": "get", "off": -2, "len": 1},
        {"c": 1, "op": "get", "off": 8, "len": 0}]},
    # stale / bogus expectations, A-B-A on contents brings the version back, a foreign CheckAndPut that loses
    {"kind": "git", "ops": [
        {"c": 0, "op": "cap", "exp": "empty", "data": _b(b"m0")},
        {"c": 1, "op": "cap", "exp": "cur", "data": _b(b"m1")},
        {"c": 0, "op": "cap", "exp": "ref", "ref": 0, "data": _b(b"m2")},
        {"c": 1, "op": "cap", "exp": "cur", "data": _b(b"m0")},
        {"c": 0, "op": "race", "exp": "ref", "ref": 0, "data": _b(b"m3"), "fexp": "bogus", "fdata": _b(b"zz")},
        {"c": 1, "op": "get", "off": -3, "len": 0}]},
]


def gen_git_case(rng):
    ops = [{"c": rng.randrange(2), "op": "cap", "exp": "empty", "data": _b(b"g0")}]
    n = 1
    for _ in range(rng.randint(2, 4)):
        c = rng.randrange(2)
        r = rng.random()
        d = _b(b"g%d" % rng.randrange(4))           # small content space: versions come back
        if r < 0.3:
            ops.append({"c": c, "op": "get", "off": rng.choice([0, 0, -1, 1, 2, 3, -2, -3]), "len": rng.choice([0, 0, 1, 5])})
        elif r < 0.6:
            ops.append({"c": c, "op": "cap", "exp": rng.choice(["cur", "cur", "bogus", "empty"]), "data": d})
        elif r < 0.7:
            ops.append({"c": c, "op": "cap", "exp": "ref", "ref": 0, "data": d})
        else:
            ops.append({"c": c, "op": "race", "exp": "cur", "data": d, "fexp": rng.choice(["cur", "cur", "bogus"]), "fdata": _b(b"f%d" % n)})
        n += 1
    return {"kind": "git", "ops": ops}


def _git_coq_case(case, out):
    o = out.get("obs") if out else None
    sch, rs = [], []
    for i, op in enumerate(case["ops"]):
        st = o["steps"][i] if o else None
        r = st["res"] if st else None
        c = op["c"] % 2
        if op["op"] == "get":
            sch.append("(%d, (OGet 0 %s %s))" % (c, cq_Z(op["off"]), cq_Z(op["len"])))
        else:
            if op["op"] == "race" and st and st.get("foreign"):
                fr = st["foreign"]
                sch.append("(%d, %s)" % (1 - c, _op_term({"op": "cap", "data": op["fdata"]}, fr)))
                rs.append(_res_term(fr))
            sch.append("(%d, %s)" % (c, _op_term({"op": "cap", "data": op["data"]}, r)))
        if r is not None:
            rs.append(_res_term(r))
    return "(IGit %s, OBlob %s)" % (cq_list(sch), cq_list(rs))


def _git_classify(case, o):
    t = {"git"}
    vers = {}
    for op, st in zip(case["ops"], o["steps"]):
        r = st["res"]
        if op["op"] == "get":
            t.add("git-get-" + ("ok" if r["r"] == "bytes" else r["r"]))
            continue
        t.add("git-cap-win" if r["r"] == "ver" else "git-cap-" + r["r"])
        if op["op"] == "race":
            f = st.get("foreign")
            if f and f["r"] == "ver":
                t.add("git-cas-retry-after-foreign-push")      # a foreign push landed between fetch/validate and push
                if r["r"] == "ver":
                    t.add("git-STALE-CAS-WON-AFTER-FOREIGN-PUSH")
            elif f:
                t.add("git-foreign-cap-lost")
        for d, rr in ((op["data"], r), (op.get("fdata"), st.get("foreign"))):
            if rr and rr["r"] == "ver":
                if vers.get(rr["ver"], tuple(d)) != tuple(d):
                    t.add("git-VERSION-SHARED-BY-DIFFERENT-CONTENTS")
                if tuple(d) in vers.values() and rr["ver"] in vers:
                    t.add("git-aba-version-returns")
                vers[rr["ver"]] = tuple(d)
    return sorted(t)


def _stress_coq_case(case, out):
    be = "InMem" if case["backend"] == "inmem" else "Local"
    o = out.get("obs") if out else None
    if o is None:
        return "(IStress %s [], OStress [RErr] [])" % be
    sch = ["(0, (OCap %d %s %d))" % (r["exp"], cq_bytes([i >> 8, i & 255]), r["ver"] if r["r"] == "ver" else 0) for i, r in enumerate(o["writer"])]
    seen = ["(%d, %s)" % (p["ver"], cq_bytes(p["data"])) for p in o["seen"]]
    return "(IStress %s %s, OStress %s %s)" % (be, cq_list(sch), cq_list(_res_term(r) for r in o["writer"]), cq_list(seen))


def _stress_classify(case, o):
    t = {"stress"}
    if case["backend"] == "local" and o["reads"] >= 1000 and len(o["seen"]) >= 10:
        t.add("local-get-pair-stress")
    written = {(r["ver"], (i >> 8, i & 255)) for i, r in enumerate(o["writer"]) if r["r"] == "ver"}
    if any((p["ver"], tuple(p["data"])) not in written for p in o["seen"]):
        t.add("stress-READER-PAIR-NEVER-WRITTEN")
    if len({r["ver"] for r in o["writer"] if r["r"] == "ver"}) < sum(1 for r in o["writer"] if r["r"] == "ver"):
        t.add("stress-writer-version-collision")
    if o.get("readerr"):
        t.add("stress-reader-error")
    return sorted(t)


# ---------------------------------------------------------------------------
# Coq terms
# ---------------------------------------------------------------------------
def _res_term(r):
    k = r["r"]
    if k == "bytes":
        return "(RBytes %s %d %d)" % (cq_bytes(r["data"]), r["size"], r["ver"])
    if k == "notfound":
        return "RNotFound"
    if k == "ver":
        return "(RVer %d)" % r["ver"]
    if k == "casfail":
        return "(RCasFail %d)" % r["ver"]
    if k == "panic":
        return "RPanic"
    return "RErr"


def _op_term(op, r):
    fresh = r["ver"] if (r is not None and r["r"] == "ver") else 0
    if op["op"] == "get":
        return "(OGet %d %s %s)" % (op["k"], cq_Z(op["off"]), cq_Z(op["len"]))
    if op["op"] == "put":
        return "(OPut %d %s %d)" % (op["k"], cq_bytes(op["data"]), fresh)
    if op["op"] == "cap":
        return "(OCap %d %s %d)" % (r["exp"] if r is not None else 0, cq_bytes(op["data"]), fresh)
    return "(OCat %d %s %d)" % (op["k"], cq_bytes(op["srcs"]), fresh)


def _linearise(conc_ops, conc_res):
    """Order of the concurrently executed steps: steps that observed the state before the (first) successful
    conditional write, then the winner(s), then the steps that observed the winner's version."""
    idx = list(range(len(conc_ops)))
    winners = [i for i in idx if conc_ops[i]["op"] == "cap" and conc_res[i]["r"] == "ver"]
    if not winners:
        return idx
    wv = conc_res[winners[0]]["ver"]
    before = [i for i in idx if i not in winners and not (conc_res[i]["r"] in ("bytes", "casfail") and conc_res[i]["ver"] == wv)]
    after = [i for i in idx if i not in winners and i not in before]
    return before + winners + after


def coq_case(case, out):
    if case.get("kind") == "nbs":
        return _nbs_coq_case(case, out)
    if case.get("kind") == "git":
        return _git_coq_case(case, out)
    if case.get("kind") == "stress":
        return _stress_coq_case(case, out)
    be = "InMem" if case["backend"] == "inmem" else "Local"
    o = out.get("obs") if out else None
    if o is None:
        sch = ["(0, %s)" % _op_term(op, None) for op in case["pre"] + case["conc"] + case["post"]]
        return "(IBlob %s %s, OBlob [])" % (be, cq_list(sch))       # no observation: agrees with no model run, fails the oracle
    sch, rs = [], []
    for op, r in zip(case["pre"], o["pre"]):
        sch.append("(0, %s)" % _op_term(op, r)); rs.append(_res_term(r))
    for i in _linearise(case["conc"], o["conc"]):
        sch.append("(%d, %s)" % (i + 1, _op_term(case["conc"][i], o["conc"][i]))); rs.append(_res_term(o["conc"][i]))
    for op, r in zip(case["post"], o["post"]):
        sch.append("(0, %s)" % _op_term(op, r)); rs.append(_res_term(r))
    return "(IBlob %s %s, OBlob %s)" % (be, cq_list(sch), cq_list(rs))


# ---------------------------------------------------------------------------
def classify(case, out):
    o = out.get("obs") if out else None
    if o is None:
        return ["panic-or-harness-error"]
    if case.get("kind") == "nbs":
        return _nbs_classify(case, o)
    if case.get("kind") == "git":
        return _git_classify(case, o)
    if case.get("kind") == "stress":
        return _stress_classify(case, o)
    be = case["backend"]
    t = {"backend-" + be}
    sizes = {}
    present = set()
    allops = list(zip(case["pre"], o["pre"])) + list(zip(case["conc"], o["conc"])) + list(zip(case["post"], o["post"]))
    # sizes are tracked only through the sequential prefix (enough for tagging)
    for op, r in allops:
        kind = op["op"]
        if kind == "put" and r["r"] == "ver":
            sizes[op["k"]] = len(op["data"]); present.add(op["k"])
        elif kind == "cap":
            if r["r"] == "ver":
                t.add("cap-win")
                if r["exp"] == 0:
                    t.add("cap-on-absent")
                sizes[0] = len(op["data"]); present.add(0)
            elif r["r"] == "casfail":
                t.add("cap-lose")
        elif kind == "cat":
            t.add("cat")
            missing = [s for s in op["srcs"] if s not in present]
            if len(op["srcs"]) > 32:
                t.add("cat-over-batch")
            if missing and r["r"] == "ver":
                t.add("cat-missing-%s-silent" % be)
            if missing and r["r"] == "err":
                t.add("cat-missing-%s-err" % be)
            if r["r"] == "ver":
                sizes[op["k"]] = sum(sizes.get(s, 0) for s in op["srcs"] if s in present); present.add(op["k"])
        elif kind == "get":
            if op["len"] < 0:
                t.add("get-neglen"); continue
            if r["r"] == "notfound":
                t.add("get-notfound"); continue
            size = r["size"] if r["r"] == "bytes" else sizes.get(op["k"])
            if size is None:
                continue
            off, ln = op["off"], op["len"]
            if size == 0:
                t.add("get-empty-blob")
            if -size <= off <= size:
                if r["r"] == "bytes":
                    t.add("get-inrange")
                if off < 0:
                    t.add("get-suffix")
                if off == size:
                    t.add("get-at-end")
                start = off if off >= 0 else size + off
                if ln > 0 and start + ln > size:
                    t.add("get-len-overshoot")
            elif off > size:
                t.add("%s-%s-beyond-end" % (be, {"panic": "panic", "bytes": "empty", "err": "err"}.get(r["r"], r["r"])))
            else:
                t.add("%s-%s-neg-beyond" % (be, {"panic": "panic", "bytes": "bytes", "err": "err"}.get(r["r"], r["r"])))
    if case["conc"]:
        t.add("conc")
        caps = [(op, r) for op, r in zip(case["conc"], o["conc"]) if op["op"] == "cap"]
        wins = sum(1 for _, r in caps if r["r"] == "ver")
        if wins == 1:
            t.add("conc-one-winner")
        elif wins == 0:
            t.add("conc-stale-no-winner")
        else:
            t.add("conc-MULTIPLE-WINNERS")
        if any(op["op"] == "get" for op in case["conc"]):
            t.add("conc-reader")
    return sorted(t)


def nontrivial(case, out):
    if case.get("kind") in ("git", "stress"):
        return True
    if case.get("kind") == "nbs":
        return any(op["op"] == "commit" for op in case["ops"])
    ops = case["pre"] + case["conc"] + case["post"]
    return any(op["op"] != "get" for op in ops) and any(op["op"] in ("get", "cap") for op in ops)


def _drop(case, part, j):
    c = copy.deepcopy(case)
    base = {"pre": 0, "conc": len(case["pre"]), "post": len(case["pre"]) + len(case["conc"])}[part]
    flat = base + j
    del c[part][j]
    for p in ("pre", "conc", "post"):
        for op in c[p]:
            if op.get("exp") == "ref":
                if op["ref"] == flat:
                    op["exp"] = "bogus"; op.pop("ref", None)
                elif op["ref"] > flat:
                    op["ref"] -= 1
    return c


def shrink_candidates(case):
    if case.get("kind") in ("git", "stress"):
        return                                   # expensive / statistical: reported as found
    if case.get("kind") == "nbs":
        for j in reversed(range(len(case["ops"]))):
            c = copy.deepcopy(case); del c["ops"][j]
            yield c
        return
    for part in ("post", "conc", "pre"):
        for j in reversed(range(len(case[part]))):
            yield _drop(case, part, j)
    for part in ("pre", "post"):
        for j, op in enumerate(case[part]):
            if op["op"] in ("put", "cap") and len(op.get("data", [])) > 1:
                c = copy.deepcopy(case); c[part][j]["data"] = op["data"][:len(op["data"]) // 2]
                yield c


def neighbours(case, rng):
    out = []
    if case.get("kind") in ("git", "stress"):
        return []
    if case.get("kind") == "nbs":
        return [gen_nbs_case(rng) for _ in range(40)]
    for part in ("pre", "post"):
        for j, op in enumerate(case[part]):
            if op["op"] == "get":
                for d_off, d_len in ((1, 0), (-1, 0), (0, 1), (0, -1), (2, 0), (-2, 0)):
                    if op["len"] + d_len < 0:
                        continue
                    c = copy.deepcopy(case); c[part][j]["off"] += d_off; c[part][j]["len"] += d_len
                    out.append(c)
    rng.shuffle(out)
    return out[:150]


def search_cases(rng):
    out = gen_sweep_cases("inmem", range(0, 9)) + gen_sweep_cases("local", range(0, 6))
    for be in ("inmem", "local"):
        for _ in range(10):
            out.append(gen_conc_case(rng, be))
    out += [gen_nbs_case(rng) for _ in range(30)]
    return out


# ---------------------------------------------------------------------------
# measured hypothesis versions_distinct (LocalBlobstore: version = mtime string, defended by a 10 ms sleep)
# ---------------------------------------------------------------------------
FRESHNESS_KEY = "blobstore.local:mtime-version-collision"


def _version_collision(case, out):
    """A successful write whose returned version equals an earlier version of the same key (interned ids)."""
    o = out.get("obs") if out else None
    if o is None or case.get("kind") in ("nbs", "git", "stress"):
        return None
    used = set()
    ops = list(zip(case["pre"], o["pre"])) + list(zip(case["conc"], o["conc"])) + list(zip(case["post"], o["post"]))
    for op, r in ops:
        if r is None or r.get("r") != "ver" or op["op"] not in ("put", "cap", "cat"):
            continue
        k = 0 if op["op"] == "cap" else op["k"]
        if (k, r["ver"]) in used:
            return (k, r["ver"])
        used.add((k, r["ver"]))
    return None


def _run_split(binary, cases):
    """git cases spawn many git subprocesses (seconds per operation under load): each runs in its own harness process,
    concurrently with the rest."""
    import concurrent.futures
    slow = [i for i, c in enumerate(cases) if c.get("kind") == "git"]
    rest = [i for i, c in enumerate(cases) if c.get("kind") != "git"]
    outs = [None] * len(cases)
    groups = [rest] + [slow[j::6] for j in range(min(6, len(slow)))]
    with concurrent.futures.ThreadPoolExecutor(max_workers=len(groups)) as ex:
        futs = [(g, ex.submit(vlib.run_harness, binary, HARNESS_RUNNER, [cases[i] for i in g], 1800)) for g in groups if g]
        for g, f in futs:
            for i, o in zip(g, f.result()):
                outs[i] = dict(o, i=i)
    return outs


def run_impl(ctx, binary, cases):
    """Runs the harness; a case on which the file system handed the same mtime to two successive writes of one key
    (versions_distinct measured false: the implementation's 10 ms sleep did not separate them) is reported as a known
    finding and re-run, so that the correspondence is evaluated on an observation that meets the stated hypothesis.
    If the collision persists after the retries the observation is kept and the exact oracle reports it."""
    outs = _run_split(binary, cases)
    collisions = 0
    for i, (c, o) in enumerate(zip(cases, outs)):
        tries = 0
        while _version_collision(c, outs[i]) is not None and tries < 4:
            if collisions == 0 and FRESHNESS_KEY not in ctx.known_seen:
                listed = [f for f in vlib.load_known(ID) if f.get("key") == FRESHNESS_KEY and str(f.get("status", "")).startswith("open")]
                if listed:
                    print("KNOWN-FINDING: property=%s %s" % (ID, listed[0]["what_fails"]))
                else:
                    print("KNOWN-FINDING: property=%s LocalBlobstore handed the same version (mtime string) to two successive writes of one key; "
                          "a conditional write with the older expectation would then succeed [key=%s; not listed in known_findings.json]" % (ID, FRESHNESS_KEY))
                ctx.known_seen.append(FRESHNESS_KEY)
                ctx.notes.append("version collision first seen on case %d: %r -> %r" % (i, c, outs[i].get("obs")))
            collisions += 1
            tries += 1
            outs[i] = vlib.run_harness(binary, HARNESS_RUNNER, [c], timeout=300)[0]
    if collisions:
        ctx.log("versions_distinct measured false %d time(s) on the local backend (mtime collision); cases re-run" % collisions)
    return outs


def match_known(finding, case, out):
    return finding.get("key") == FRESHNESS_KEY and case.get("backend") == "local" and _version_collision(case, out) is not None
