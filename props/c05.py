"""C05 — The manifest is replaced atomically and never names a missing table file."""
from lib import vlib
from lib.vlib import cq_bytes, cq_bool, cq_list

ID = "C05"
HARNESS_PKG = "c05"
HARNESS_RUNNER = "c05"
COQ_TARGETS = ["theories/C05/Corr.vo"]
COQ_CORR_MODULE = "Base.Str C05.Model C05.Spec C05.Corr"
COQ_CASE_TYPE = "C05.Corr.case"
COQ_CHECK = "C05.Corr.check_case"
COQ_MODEL_OBS = "(fun c => C05.Corr.model_obs (fst c))"
COQ_SHARD = 150
DESIGN_REF = "§5 C05"
TECHNIQUE = ("Coq proof: manifest text codec round trip for all well-formed manifests; directory state machine (store process = writer/"
             "conjoiner/GC, grace pruner in another process, crashes) with an inductive invariant over all schedules; in-Coq correspondence "
             "against parseManifest/writeManifest, fileManifest.Update/UpdateGCGen/LockManifest and pruneDirAsOf driven through the repo's "
             "writeHook and prune test hooks")
LEVEL_TEXT = ("Proof (F/M): parse_manifest (write_manifest m) = m-as-persisted for every well-formed manifest; for every schedule of store-process "
              "steps (land table file, open/close, unlink-unprotected, lock / temp / finish of a manifest update incl. conjoin and GC-generation "
              "updates, crash), pruner steps (scan, lock, unlink, crash) and environment steps, the directory invariant (manifest parses, every named "
              "table file or archive exists) holds in every reachable state; every step leaves the manifest text unchanged or installs the complete "
              "serialisation of the proposed contents; a pruner step never removes a file the manifest names at that moment (no_live_unlink); the "
              "executable oracle is proved true of the model for every input (oracle_on_model). The model is tied to the code by replaying generated "
              "nested schedules on the real fileManifest / conjoinOperation.updateManifest / pruneDirAsOf code and on two real NomsBlockStore handles "
              "(real Commit, real PruneUnreferencedWithGrace), comparing result codes and directory listings after each step inside Coq.")
LEVEL_NOTE = ("Trusted: Coq kernel, translator (file-name and version constants), Go harness + Python glue. Modelled, not verified: a hash is its 32 "
              "base-32 digits (encoding/base32 bit packing not modelled); flock gives mutual exclusion (LOCK is one boolean); rename is atomic; "
              "read-compare-validate-rename of updateWithChecker is one step under the LOCK; fsync / power-loss durability (rename lost before the "
              "directory fsync) is not modelled: a crash is a process stop at any step boundary, with the LOCK released and temp files (possibly "
              "partial) left behind (crashes are covered by the theorems only, the harness exercises hook-abort); in the hook-driven schedules table "
              "landing is simulated with plain file operations, in the real-store schedules it is the real persister; the store process is the only "
              "manifest writer (PruneTableFiles and the conjoin cleanup protect only files open in their own process); the lock hash of a conjoin "
              "proposal (SHA-512) is taken from the implementation; the timing claim (a landed but unpublished file survives if the writer's quiet "
              "window is shorter than the grace period) is not a theorem: the model proves the complementary safety fact (such an update is rejected "
              "with ErrManifestSpecMissingTableFile and Inv holds).")
THEOREMS = ["manifest_codec", "manifest_codec_exact", "write_manifest_none", "inv_reachable", "inv_step", "update_atomic",
            "update_atomic_reachable", "failed_update_changes_nothing", "no_live_unlink", "no_live_unlink_candidate", "oracle_on_model", "consts_pinned"]
RULE = ("five kinds of cases: (c) conjoin proposals (upstream specs, conjoinees, conjoined) through the real conjoinOperation.updateManifest with a recording "
        "updater; (n) two real NomsBlockStore handles on one directory: B commits (lands + publishes table files, root changed or not), garbage table-named "
        "files, A opened earlier / rebased or not / holding a table the manifest dropped, then the real PruneUnreferencedWithGrace; and (w) random manifest contents through writeManifest then parseManifest; (p) serialised manifests mutated by byte edits, "
        "field edits, truncation, version changes through parseManifest; (t) nested schedules (table landings, updates with stale/fresh lock and a "
        "write hook containing further steps, GC-generation updates, grace prunes with explicit clocks whose after-snapshot and under-lock hooks "
        "contain further steps) on a fresh directory; non-trivial = a trace with at least one manifest update or prune, or a codec case; distinct by content")
ASSUMPTIONS = ["format-version strings contain no ':'",
               "at most one temp manifest exists at a time in generated schedules (real temp names are random, their listing order is not modelled)",
               "file mtimes are set by the harness in whole seconds relative to a fixed base; the LOCK file is aged to the base time and every probe time is at least one grace period after the base"]
REQUIRED_TAGS = ["write-ok", "write-reject", "parse-ok", "parse-corrupt", "parse-badcount", "parse-badname", "parse-badlock", "parse-badroot", "parse-v4",
                 "parse-eof", "parse-version", "upd-swap", "upd-mismatch", "upd-missing", "upd-gcgen", "upd-busy", "upd-abort", "prune-notquiet",
                 "prune-unlinked", "prune-kept", "prune-busy", "prune-mchanged", "prune-changed", "gc-update",
                 "conj-applies", "conj-cannot-apply", "conjoin", "shrink-missing", "nbs-real-prune", "nbs-published-after-open", "nbs-upstream-only-table"]

B32 = "0123456789abcdefghijklmnopqrstuv"
ZERO = "0" * 32
JOURNAL = "v" * 32


def rhash(rng):
    return "".join(rng.choice(B32) for _ in range(32))


def hdig(h):
    return "[" + "; ".join(str(B32.index(c)) for c in h) + "]"


NBFS = [b"__DOLT__", b"__LD_1__", b"7.18", b"x"]
COUNTS = [0, 1, 7, 255, 4294967295, 1000000, 12]


def gen_manifest(rng, wf=True):
    nbf = rng.choice(NBFS)
    lock = rhash(rng)
    if not wf:
        k = rng.random()
        if k < 0.4:
            nbf = b""
        elif k < 0.8:
            lock = ZERO
        else:
            nbf = rng.choice([b"a:b", b":", b"x:"])
    specs = [{"name": rhash(rng), "count": rng.choice(COUNTS + [rng.randrange(1 << 32)])} for _ in range(rng.choice([0, 0, 1, 2, 3, 5]))]
    app = [dict(s) for s in specs[:rng.choice([0, 0, 0, 1, 2])]]
    if rng.random() < 0.1:
        app.append({"name": rhash(rng), "count": 3})
    return {"vers": list(rng.choice([b"5", b"5", b"4", b""])), "nbf": list(nbf), "lock": lock, "root": rng.choice([rhash(rng), ZERO]),
            "gcgen": rng.choice([rhash(rng), ZERO]), "specs": specs, "appendix": app}


def serialise(m, vers=b"5"):
    parts = [vers, bytes(m["nbf"]), m["lock"].encode(), m["root"].encode()]
    if vers != b"4":
        parts.append(m["gcgen"].encode())
    for s in m["specs"]:
        parts += [s["name"].encode(), str(s["count"]).encode()]
    return b":".join(parts)


def gen_parse(rng):
    m = gen_manifest(rng)
    vers = rng.choice([b"5", b"5", b"5", b"4"])
    t = serialise(m, vers)
    k = rng.random()
    if k < 0.15:
        pass
    elif k < 0.3:
        i = rng.randrange(len(t) + 1)
        t = t[:i]
    elif k < 0.5:
        for _ in range(rng.choice([1, 1, 2])):
            i = rng.randrange(len(t))
            t = t[:i] + bytes([rng.choice(b":w0vV+- \n_x9a\x00\xc3\xff")]) + t[i + rng.choice([0, 1]):]
    elif k < 0.7:
        parts = t.split(b":")
        i = rng.randrange(len(parts))
        ch = rng.random()
        if ch < 0.25:
            del parts[i]
        elif ch < 0.45:
            parts.insert(i, rng.choice([b"", b"0", rhash(rng).encode(), b"12"]))
        elif ch < 0.75:
            parts[i] = rng.choice([b"", b"+1", b"-1", b"01", b"000000000000000000000000000000000007", b"4294967296", b"4294967295", b"99999999999999999999999",
                                   b"1_0", b"0x10", b" 1", b"1 ", b"1\n", rhash(rng).encode()[:31], rhash(rng).encode() + b"0", rhash(rng).encode().upper(),
                                   b"w" * 32, ZERO.encode(), JOURNAL.encode()])
        else:
            parts[i] = parts[i] + rng.choice([b"\n", b" ", b"w"])
        t = b":".join(parts)
    elif k < 0.85:
        rest = t.split(b":", 1)[1] if b":" in t else b""
        t = rng.choice([b"", b"5", b"4", b"6", b"05", b"55", b" 5", b"1234567", b"12345678", b"123456789", b"\xff", b"v5"]) + rng.choice([b":", b":", b""]) + rest
    else:
        t = bytes(rng.choice(b"54:0av1w\n") for _ in range(rng.randrange(0, 12)))
    return {"kind": "parse", "text": list(t)}


# ---------------------------------------------------------------------------
# traces
# ---------------------------------------------------------------------------
class TGen:
    def __init__(self, rng):
        self.rng = rng
        self.pool = [rhash(rng) for _ in range(5)] + ([JOURNAL] if rng.random() < 0.25 else [])
        self.locks = [rhash(rng) for _ in range(6)]
        self.next_tmp = 1
        self.next_mtmp = 1
        self.temps = []        # temp table ids present
        self.landed = []       # (h, arch) landed at some point
        self.cur = None        # believed current manifest
        self.nbf = list(rng.choice(NBFS))
        self.t = rng.randrange(400, 600)      # clocks stay well above the grace periods (the LOCK file sits at the base time)
        self.budget = rng.randrange(6, 16)

    def tick(self):
        self.t += self.rng.choice([0, 0, 1, 5, 20, 60])
        return self.t

    def op_tmpt(self):
        i = self.next_tmp
        self.next_tmp += 1
        self.temps.append(i)
        return {"op": "tmpt", "id": i, "mt": self.tick(), "sz": self.rng.choice([0, 1, 10, 10, 33])}

    def op_land(self):
        if not self.temps:
            return self.op_tmpt()
        i = self.temps.pop(self.rng.randrange(len(self.temps)))
        h = self.rng.choice(self.pool)
        arch = self.rng.random() < 0.2
        self.landed.append((h, arch))
        return {"op": "land", "id": i, "h": h, "arch": arch}

    def op_update(self, allow_nested):
        rng = self.rng
        gc = rng.random() < 0.2
        curlock = self.cur["lock"] if self.cur else ZERO
        k = rng.random()
        last = curlock if k < 0.75 else rng.choice(self.locks + [ZERO])
        names = sorted(set(h for h, _ in self.landed))
        rng.shuffle(names)
        specs = [{"name": h, "count": rng.choice(COUNTS)} for h in names[:rng.randrange(0, len(names) + 1)]]
        if self.cur and rng.random() < 0.6:
            have = set(s["name"] for s in specs)
            specs += [dict(s) for s in self.cur["specs"] if s["name"] not in have]
        app = [dict(s) for s in specs[:rng.choice([0, 0, 0, 1])]]
        gcgen = self.cur["gcgen"] if self.cur else ZERO
        if gc or rng.random() < 0.1:
            gcgen = rng.choice(self.locks)
        root = rng.choice(self.locks + [ZERO])
        if gc and self.cur and rng.random() < 0.8:
            root = self.cur["root"]
        nbf = self.nbf if rng.random() < 0.93 else list(b"other")
        new = {"vers": list(b"5"), "nbf": nbf, "lock": rng.choice(self.locks), "root": root, "gcgen": gcgen, "specs": specs, "appendix": app}
        op = {"op": "update", "gc": gc, "last": last, "new": new, "id": self.next_mtmp, "mt": self.tick(), "abort": rng.random() < 0.1, "hook": []}
        self.next_mtmp += 1
        if allow_nested and rng.random() < 0.35:
            for _ in range(rng.choice([1, 1, 2])):
                c = rng.random()
                if c < 0.3:
                    op["hook"].append(self.op_tmpt())
                elif c < 0.5:
                    op["hook"].append(self.op_land())
                elif c < 0.65:
                    op["hook"].append({"op": "touch", "id": rng.randrange(3), "mt": self.tick()})
                else:
                    op["hook"].append(self.op_prune(False))
        if not op["abort"] and last == curlock and nbf == self.nbf and (self.cur is not None or True):
            ok_gen = (new["root"] == (self.cur["root"] if self.cur else ZERO)) if gc else (new["gcgen"] == (self.cur["gcgen"] if self.cur else ZERO))
            if ok_gen:
                self.cur = new       # believed (a pruned table makes it fail; harmless)
        return op

    def op_conjoin(self):
        """conjoin some of the tables of the manifest the store believes in into a landed table"""
        rng = self.rng
        up = self.cur if (self.cur and rng.random() < 0.85) else {"vers": list(b"5"), "nbf": self.nbf, "lock": rng.choice(self.locks), "root": ZERO,
                                                                  "gcgen": ZERO, "specs": [], "appendix": []}
        up = dict(up); up["appendix"] = []
        names = sorted(set(h for h, _ in self.landed))
        if not up["specs"] or not names:
            return self.op_tmpt()
        k = rng.randrange(1, len(up["specs"]) + 1)
        cj = [dict(s) for s in rng.sample(up["specs"], k)]
        op = {"op": "conjoin", "up": up, "cj": cj, "c": {"name": rng.choice(names), "count": 9}, "id": self.next_mtmp, "mt": self.tick(), "hook": []}
        self.next_mtmp += 3
        self.cur = None if rng.random() < 0.5 else self.cur     # the generator no longer knows the lock on disk
        return op

    def op_prune(self, allow_nested):
        rng = self.rng
        self.temps = []      # temp table files older than the scan may be reclaimed: never land them afterwards
        grace = rng.choice([10, 50, 100, 300])
        if rng.random() < 0.75:
            probe = self.t + grace + rng.choice([0, 1, 30, 500])
        else:
            probe = self.t + rng.choice([0, grace // 2, max(grace - 1, 0)])
        op = {"op": "prune", "grace": grace, "probe": probe, "extra": [h for h in self.pool if rng.random() < 0.15], "after": [], "under": []}
        if allow_nested:
            if rng.random() < 0.45:
                for _ in range(rng.choice([1, 1, 2, 3])):
                    c = rng.random()
                    if c < 0.12 and self.landed:
                        h, arch = rng.choice(self.landed)      # replace a file the scan has already seen
                        t = self.op_tmpt()
                        self.temps.pop()
                        op["after"] += [t, {"op": "land", "id": t["id"], "h": h, "arch": arch}]
                    elif c < 0.25:
                        op["after"].append(self.op_tmpt())
                    elif c < 0.55:
                        op["after"].append(self.op_land())
                    elif c < 0.9:
                        op["after"].append(self.op_update(False))
                    else:
                        op["after"].append({"op": "touch", "id": rng.randrange(3), "mt": self.tick()})
            if rng.random() < 0.3:
                # the under-lock hook only runs when the pruner got that far: nothing the generator relies on later
                c = rng.random()
                if c < 0.6:
                    keep = self.cur
                    op["under"].append(self.op_update(False))     # times out on the LOCK
                    self.cur = keep
                else:
                    op["under"].append(self.op_tmpt())
                    self.temps.pop()
        return op

    def gen(self):
        rng = self.rng
        ops = []
        for _ in range(self.budget):
            c = rng.random()
            if c < 0.22:
                ops.append(self.op_tmpt())
            elif c < 0.47:
                ops.append(self.op_land())
            elif c < 0.66:
                ops.append(self.op_update(True))
            elif c < 0.72:
                ops.append(self.op_conjoin())
            elif c < 0.92:
                ops.append(self.op_prune(True))
            elif c < 0.96:
                ops.append({"op": "touch", "id": rng.randrange(3), "mt": self.tick()})
            elif self.temps:
                ops.append({"op": "unlinktmp", "id": self.temps.pop()})
        return {"kind": "trace", "ops": ops}



def gen_conj(rng):
    """conjoinOperation.updateManifest's proposal: upstream specs, a subset (or not) as conjoinees, the conjoined table."""
    n = rng.choice([1, 2, 3, 4, 6])
    specs = [{"name": rhash(rng), "count": rng.choice(COUNTS)} for _ in range(n)]
    up = {"vers": list(b"5"), "nbf": list(b"__DOLT__"), "lock": rhash(rng), "root": rhash(rng), "gcgen": rng.choice([ZERO, rhash(rng)]),
          "specs": specs, "appendix": []}
    k = rng.randrange(1, n + 1)
    cj = [dict(s) for s in rng.sample(specs, k)]
    if rng.random() < 0.25:
        cj.append({"name": rhash(rng), "count": 1})        # a conjoinee that is gone: cannot apply
    return {"kind": "conj", "up": up, "cj": cj, "c": {"name": rhash(rng), "count": sum(s["count"] for s in cj) % (1 << 32)}}


def nbs_scenarios(rng, n):
    """Two real NomsBlockStore handles on one directory: B commits (lands a table file, publishes it), A — opened earlier and
    not rebased — runs the real PruneUnreferencedWithGrace.  Garbage = table-named files nobody publishes."""
    out = []
    for _ in range(n):
        ops, t, tid, mid, x = [], 100, 1, 1, 1
        def commit():
            nonlocal t, tid, mid, x
            t += 5
            ops.append({"op": "b_commit", "x": x, "root_change": rng.random() < 0.5, "mt": t, "id": tid, "mid": mid})
            tid += 3; mid += 1; x += 1
        def garbage():
            nonlocal t, tid
            t += 1
            ops.append({"op": "tmpt", "id": tid, "mt": t, "sz": rng.choice([0, 7, 40])})
            if rng.random() < 0.8:
                ops.append({"op": "land", "id": tid, "h": rhash(rng), "arch": rng.random() < 0.3})
            tid += 1
        for _ in range(rng.choice([1, 1, 2])):
            commit()
        for _ in range(rng.choice([0, 1])):
            garbage()
        ops.append({"op": "a_open"})
        for _ in range(rng.choice([0, 1, 1, 2])):
            commit()
        for _ in range(rng.choice([0, 1, 2])):
            garbage()
        k = rng.random()
        if k < 0.25:
            t += 1
            ops.append({"op": "drop_first_spec", "h": rhash(rng), "id": 900 + mid, "mt": t})   # a table only A's upstream still needs
        elif k < 0.4:
            ops.append({"op": "a_rebase"})
        if rng.random() < 0.15:
            ops.append({"op": "fresh", "id": 7})
        ops.append({"op": "a_prune", "grace": rng.choice([60, 600, 3600])})
        if rng.random() < 0.4:
            commit()
            ops.append({"op": "a_prune", "grace": 600})
        out.append({"kind": "trace", "ops": ops, "nbs": True})
    return out


def gen_cases(rng, tier):
    nw, np_, nt = (120, 320, 170) if tier == "quick" else (4000, 20000, 6000)
    cases = []
    for i in range(nw):
        cases.append({"kind": "write", "m": gen_manifest(rng, wf=(rng.random() < 0.8))})
    zr = ZERO.encode()
    fixed = [b"5:__DOLT__:" + zr[:31] + b"1:" + b"w" * 32 + b":" + zr,          # malformed root: an error, not a panic (fix d54718b)
             b"4:__DOLT__:" + zr[:31] + b"1:" + zr[:31],
             b"5:__DOLT__:" + zr[:31] + b"1::" + zr,
             b"", b"5", b"5:", b"4:", b"5:a:b:c", b"5:a:b:c:d", b"4:a:b", b"4:a:b:c", b"12345678:", b"1234567:", b"6:x"]
    cases += [{"kind": "parse", "text": list(t)} for t in fixed]
    for i in range(np_):
        cases.append(gen_parse(rng))
    cases += fixed_traces(rng)
    for i in range(nt):
        cases.append(TGen(rng).gen())
    cases += nbs_scenarios(rng, 40 if tier == "quick" else 1500)
    for i in range(60 if tier == "quick" else 3000):
        cases.append(gen_conj(rng))
    return cases


HARNESS_TIMEOUT = 1800


def run_impl(ctx, binary, cases):
    """The 100 ms flock timeout of fileManifest can fire under load although nobody holds the LOCK; the harness reports that
    as an error (it knows when one of its own actors holds it) and the case is simply run again."""
    outs = vlib.run_harness(binary, HARNESS_RUNNER, cases, timeout=HARNESS_TIMEOUT)
    retried = 0
    for i, o in enumerate(outs):
        tries = 0
        while "spurious-lock-timeout" in (outs[i].get("err") or "") and tries < 5:
            tries += 1
            retried += 1
            outs[i] = vlib.run_harness(binary, HARNESS_RUNNER, [cases[i]], timeout=300)[0]
    if retried:
        ctx.log("re-ran %d case(s) after a spurious manifest lock timeout" % retried)
    return outs


def fixed_traces(rng):
    """Hand-placed schedules for the rare branches (re-stat before unlink, missing table file after a prune, journal-named file)."""
    h1, h2, lk1, lk2 = rhash(rng), rhash(rng), rhash(rng), rhash(rng)
    man = lambda lock, specs, gcgen=ZERO: {"vers": list(b"5"), "nbf": list(b"__DOLT__"), "lock": lock, "root": lk1, "gcgen": gcgen,
                                           "specs": [{"name": h, "count": 2} for h in specs], "appendix": []}
    land2 = [{"op": "tmpt", "id": 1, "mt": 400, "sz": 5}, {"op": "land", "id": 1, "h": h1, "arch": False},
             {"op": "tmpt", "id": 2, "mt": 401, "sz": 5}, {"op": "land", "id": 2, "h": h2, "arch": True}]
    upd = lambda i, last, m, mt, hook=None: {"op": "update", "gc": False, "last": last, "new": m, "id": i, "mt": mt, "abort": False, "hook": hook or []}
    out = []
    # a candidate is replaced after the scan: the pass stops at the re-stat
    out.append(land2 + [{"op": "prune", "grace": 50, "probe": 1000, "extra": [],
                         "after": [{"op": "tmpt", "id": 3, "mt": 402, "sz": 7}, {"op": "land", "id": 3, "h": h1, "arch": False},
                                   {"op": "tmpt", "id": 4, "mt": 403, "sz": 9}, {"op": "land", "id": 4, "h": h2, "arch": True}], "under": []}])
    # published table survives, unpublished one goes, then publishing it fails cleanly
    out.append(land2 + [upd(1, ZERO, man(lk1, [h1]), 410),
                        {"op": "prune", "grace": 50, "probe": 1000, "extra": [], "after": [], "under": []},
                        upd(2, lk1, man(lk2, [h1, h2]), 1010)])
    # writer publishes between the scan and the lock with an unchanged manifest mtime: the locked keep set saves the file
    out.append(land2 + [upd(1, ZERO, man(lk1, [h1]), 410),
                        {"op": "prune", "grace": 50, "probe": 1000, "extra": [],
                         "after": [upd(2, lk1, man(lk2, [h1, h2]), 410)], "under": []}])
    # the journal-named file and an unknown file are never candidates
    out.append([{"op": "tmpt", "id": 1, "mt": 400, "sz": 5}, {"op": "land", "id": 1, "h": JOURNAL, "arch": False},
                {"op": "tmpt", "id": 2, "mt": 400, "sz": 5}, {"op": "land", "id": 2, "h": JOURNAL, "arch": True},
                {"op": "touch", "id": 1, "mt": 400},
                {"op": "prune", "grace": 50, "probe": 1000, "extra": [], "after": [], "under": []}])
    # pruner inside the writer's hook cannot take the LOCK; writer under the pruner's lock times out
    out.append(land2 + [upd(1, ZERO, man(lk1, [h1]), 410, hook=[{"op": "prune", "grace": 50, "probe": 1000, "extra": [], "after": [], "under": []}]),
                        {"op": "prune", "grace": 50, "probe": 1000, "extra": [], "after": [],
                         "under": [upd(2, lk1, man(lk2, [h1]), 1001)]}])
    # shrinking updates whose new file was reclaimed between landing and publish: rejected under the LOCK
    h3 = rhash(rng)
    land3 = land2 + [{"op": "tmpt", "id": 5, "mt": 402, "sz": 9}, {"op": "land", "id": 5, "h": h3, "arch": False}]
    m12 = man(lk1, [h1, h2])
    prune_all = {"op": "prune", "grace": 50, "probe": 1000, "extra": [], "after": [], "under": []}
    conj = lambda up, hook=None, mt=1011: {"op": "conjoin", "up": up, "cj": [{"name": h1, "count": 2}, {"name": h2, "count": 2}], "c": {"name": h3, "count": 4},
                                           "id": 20, "mt": mt, "hook": hook or []}
    #   conjoin 2 -> 1, conjoined file pruned before the manifest update
    out.append(land3 + [upd(1, ZERO, m12, 410), prune_all, conj(m12)])
    #   conjoin 2 -> 1, file present: lands
    out.append(land3 + [upd(1, ZERO, m12, 410), conj(m12)])
    #   conjoin against a stale upstream: first proposal bounces, second is built on what is on disk
    m12b = man(lk2, [h2, h1])
    out.append(land3 + [upd(1, ZERO, m12, 410), upd(2, lk1, m12b, 411), conj(m12)])
    #   conjoinee already gone from the manifest: nothing is proposed
    out.append(land3 + [upd(1, ZERO, man(lk1, [h1]), 410), conj(m12)])
    #   GC swap to fewer files (UpdateGCGen), new file pruned between landing and publish
    gcm = dict(man(lk2, [h3], gcgen=lk2))
    out.append(land3 + [upd(1, ZERO, m12, 410), prune_all,
                        {"op": "update", "gc": True, "last": lk1, "new": gcm, "id": 2, "mt": 1012, "abort": False, "hook": []}])
    #   GC swap to fewer files, file present
    out.append(land3 + [upd(1, ZERO, m12, 410),
                        {"op": "update", "gc": True, "last": lk1, "new": gcm, "id": 2, "mt": 1012, "abort": False, "hook": []}])
    #   pruner takes the LOCK inside the conjoin's write hook: busy; and the conjoined file is then still there
    out.append(land3 + [upd(1, ZERO, m12, 410), conj(m12, hook=[prune_all], mt=412)])
    return [{"kind": "trace", "ops": ops} for ops in out]


# ---------------------------------------------------------------------------
# Coq terms
# ---------------------------------------------------------------------------
def cq_spec(s):
    return "{| sp_name := %s; sp_cnt := %d |}" % (hdig(s["name"]), s["count"])


def cq_manifest(m):
    return ("{| m_vers := %s; m_nbf := %s; m_lock := %s; m_root := %s; m_gcgen := %s; m_specs := %s; m_appendix := %s |}" % (
        cq_bytes(m["vers"]), cq_bytes(m["nbf"]), hdig(m["lock"]), hdig(m["root"]), hdig(m["gcgen"]),
        cq_list(cq_spec(s) for s in (m.get("specs") or [])), cq_list(cq_spec(s) for s in (m.get("appendix") or []))))


PCLASS = {"eof": "PErrEOF", "corrupt": "PCorrupt", "version": "PUnknownVersion", "specname": "PBadSpecName", "count": "PBadCount",
          "lock": "PBadLock", "gcgenhash": "PBadGcGen", "root": "PBadRoot"}


def cq_presult(p):
    if p["class"] == "ok":
        return "(POk %s)" % cq_manifest(p["m"])
    return PCLASS.get(p["class"], "PErrEOF (* unexpected class %s *)" % p["class"].replace("*", "x")[:40])


def cq_step(s):
    k = s["k"]
    if k == "STmpTable":
        return "(TS (STmpTable %d %d %d))" % (s["id"], s["mt"], s["sz"])
    if k == "SLand":
        return "(TS (SLand %d %s %s))" % (s["id"], hdig(s["h"]), cq_bool(s["arch"]))
    if k == "SUnlinkTmp":
        return "(TS (SUnlinkTmp %d))" % s["id"]
    if k == "ETouch":
        return "(TS (ETouch %d %d))" % (s["id"], s["mt"])
    if k == "ULock":
        return "(TS (ULock %s %s %s))" % (cq_bool(s["gc"]), hdig(s["last"]), cq_manifest(s["new"]))
    if k == "UTemp":
        return "(TS (UTemp %d %d))" % (s["id"], s["mt"])
    if k == "UAbort":
        return "(TS UAbort)"
    if k == "UFinish":
        return "(TS UFinish)"
    if k == "PScan":
        return "(TS (PScan %d %d))" % (s["grace"], s["probe"])
    if k == "PLock":
        return "(TS (PLock %s))" % cq_list(hdig(h) for h in (s.get("extra") or []))
    if k == "TUnlinkAll":
        return "TUnlinkAll"
    raise ValueError(k)


def fname(f):
    if f["k"] == "t":
        return f["h"].encode()
    if f["k"] == "a":
        return f["h"].encode() + b".darc"
    if f["k"] == "tt":
        return b"nbs_table_%d" % max(f["id"], 0)
    return b"nbs_manifest_%d" % (f["id"] if f["id"] >= 0 else 999999)


def cq_snap(sn):
    if sn is None:
        return "None"
    man = "(Some (%s, %d))" % (cq_bytes(sn["manifest"] or []), max(sn["mmt"], 0)) if sn["has"] else "None"
    items = []
    for f in sorted(sn["files"], key=fname):
        if f["k"] in ("t", "a"):
            nm = "CTable %s %s" % (hdig(f["h"]), cq_bool(f["k"] == "a"))
        elif f["k"] == "tt":
            nm = "CTmpTable %d" % max(f["id"], 0)
        else:
            nm = "CTmpManifest %d" % (f["id"] if f["id"] >= 0 else 999999)
        items.append("(%s, (%d, %d))" % (nm, max(f["mt"], 0), f["sz"]))
    return "(Some (%s, %s))" % (man, cq_list(items))


def coq_case(case, out):
    o = out.get("obs")
    bad = "(IParse [], OTrace [])"     # no model agrees, no oracle accepts
    if o is None or out.get("panic") or out.get("err"):
        return bad
    if case["kind"] == "write":
        t = "(Some %s)" % cq_bytes(o.get("wtext") or []) if o["wclass"] == "ok" else "None"
        p = "(Some %s)" % cq_presult(o["parse"]) if o["wclass"] == "ok" else "None"
        if o["wclass"] not in ("ok", "write"):
            return bad
        return "(IWrite %s, OWrite %s %s)" % (cq_manifest(case["m"]), t, p)
    if case["kind"] == "parse":
        if o["parse"]["class"] != "ok" and o["parse"]["class"] not in PCLASS:
            return bad
        return "(IParse %s, OParse %s)" % (cq_bytes(case["text"]), cq_presult(o["parse"]))
    if case["kind"] == "conj":
        cj = o["conj"]
        return "(IConj %s %s %s, OConj %s)" % (cq_manifest(case["up"]), cq_list(hdig(x["name"]) for x in case["cj"]), cq_spec(case["c"]),
                                                ("(Some %s)" % cq_list(cq_spec(x) for x in cj["specs"])) if cj["applied"] else "None")
    tr = o.get("trace") or []
    steps = cq_list(cq_step(e["s"]) for e in tr)
    res = cq_list("(%d, %d, %s, %s)" % (e["code"] if e["code"] >= 0 else 95, e["aux"], hdig(e["lock"]) if e["lock"] else "[]", cq_snap(e["snap"])) for e in tr)
    return "(ITrace %s, OTrace %s)" % (steps, res)


def classify(case, out):
    o = out.get("obs")
    if o is None:
        return ["panic"]
    t = []
    if case["kind"] == "write":
        t.append("write-ok" if o["wclass"] == "ok" else "write-reject")
        if case["m"]["appendix"]:
            t.append("write-appendix")
    elif case["kind"] == "parse":
        c = o["parse"]["class"]
        t.append({"ok": "parse-ok", "corrupt": "parse-corrupt", "count": "parse-badcount", "specname": "parse-badname", "lock": "parse-badlock",
                  "gcgenhash": "parse-badgcgen", "root": "parse-badroot", "eof": "parse-eof", "version": "parse-version"}.get(c, "parse-other"))
        if c == "ok" and bytes(o["parse"]["m"]["vers"]) == b"4":
            t.append("parse-v4")
    elif case["kind"] == "conj":
        t.append("conj-applies" if o["conj"]["applied"] else "conj-cannot-apply")
    else:
        tr = o.get("trace") or []
        pend_gc = False
        if case.get("nbs"):
            t.append("nbs-real-prune")
            pl = [e for e in tr if e["s"]["k"] == "PLock" and e["code"] == 0]
            for e in pl:
                man = None
                for f in tr[:tr.index(e)]:
                    if f["s"]["k"] == "UFinish" and f["snap"] and f["snap"]["has"]:
                        man = f
                # the keep set needed the re-read under the LOCK: a published table A's upstream does not have
                if man is not None:
                    pass
            ex = set(x for e in pl for x in e["s"]["extra"])
            pub = set()
            for e in tr:
                if e["s"]["k"] == "ULock":
                    pub = set(sp["name"] for sp in e["s"]["new"]["specs"])
            if pl and (pub - ex):
                t.append("nbs-published-after-open")
            if pl and (ex - pub):
                t.append("nbs-upstream-only-table")
        if any(op["op"] == "conjoin" for op in case["ops"]):
            t.append("conjoin")
            fin = [e for e in tr if e["s"]["k"] == "UFinish"]
            if any(e["code"] == 3 for e in fin):
                t.append("shrink-missing")
        for i, e in enumerate(tr):
            k, code = e["s"]["k"], e["code"]
            if k == "ULock":
                pend_gc = e["s"]["gc"]
                if code == 8:
                    t.append("upd-busy")
            elif k == "UFinish":
                if code == 0:
                    new = None
                    for j in range(i, -1, -1):
                        if tr[j]["s"]["k"] == "ULock":
                            new = tr[j]["s"]["new"]
                            break
                    if new is not None and e["lock"] == new["lock"] and e["snap"] and e["snap"]["has"]:
                        t.append("upd-swap")
                        if pend_gc:
                            t.append("gc-update")
                    else:
                        t.append("upd-mismatch")
                else:
                    t.append({2: "upd-gcgen", 3: "upd-missing", 4: "upd-nbf", 5: "upd-nonzero", 7: "upd-gcroot"}.get(code, "upd-other"))
            elif k == "UAbort":
                t.append("upd-abort")
            elif k == "PScan":
                t.append({20: "prune-notquiet", 21: "prune-nocand", 0: "prune-scan"}.get(code, "prune-other"))
            elif k == "PLock":
                t.append({8: "prune-busy", 22: "prune-mchanged", 0: "prune-locked"}.get(code, "prune-lock-other"))
            elif k == "TUnlinkAll":
                if e["aux"] > 0:
                    t.append("prune-unlinked")
                if code == 26:
                    t.append("prune-changed")
                # a candidate that survived because the keep set vouched for it
                if e["snap"] and any(f["k"] in ("t", "a") for f in e["snap"]["files"]):
                    t.append("prune-kept")
        t = sorted(set(t)) + ["trace"]
    return t


def nontrivial(case, out):
    if case["kind"] != "trace":
        return True
    if case.get("nbs"):
        return True
    return any(op["op"] in ("update", "prune") for op in case["ops"])


def shrink_candidates(case):
    if case["kind"] == "trace":
        ops = case["ops"]
        for i in range(len(ops)):
            yield dict(case, ops=ops[:i] + ops[i + 1:])
        for i, op in enumerate(ops):
            for key in ("hook", "after", "under"):
                if op.get(key):
                    for j in range(len(op[key])):
                        o2 = dict(op)
                        o2[key] = op[key][:j] + op[key][j + 1:]
                        yield dict(case, ops=ops[:i] + [o2] + ops[i + 1:])
    elif case["kind"] == "parse":
        t = case["text"]
        for i in range(len(t)):
            yield {"kind": "parse", "text": t[:i] + t[i + 1:]}
    elif case["kind"] == "conj":
        for i in range(len(case["cj"])):
            yield dict(case, cj=case["cj"][:i] + case["cj"][i + 1:])
    else:
        m = case["m"]
        for key in ("specs", "appendix"):
            for i in range(len(m[key])):
                m2 = dict(m)
                m2[key] = m[key][:i] + m[key][i + 1:]
                yield {"kind": "write", "m": m2}


def neighbours(case, rng):
    out = []
    if case["kind"] == "parse":
        t = case["text"]
        for i in range(len(t) + 1):
            for b in (58, 48, 119, 10):
                out.append({"kind": "parse", "text": t[:i] + [b] + t[i:]})
        for i in range(len(t)):
            out.append({"kind": "parse", "text": t[:i] + t[i + 1:]})
    else:
        for _ in range(60):
            out.append(TGen(rng).gen())
            out.append({"kind": "write", "m": gen_manifest(rng)})
    rng.shuffle(out)
    return out


def search_cases(rng):
    return [gen_parse(rng) for _ in range(200)] + [TGen(rng).gen() for _ in range(100)]
