"""C46 — Ignored tables stay out of commits and clean removes only untracked tables."""
import re as _re

from lib.vlib import cq_bytes, cq_bool, cq_list

ID = "C46"
HARNESS_PKG = "c46"
HARNESS_RUNNER = "c46"
COQ_TARGETS = ["theories/C46/Corr.vo"]
COQ_CORR_MODULE = "Base.Str C46.Model C46.Spec C46.Corr"
COQ_CASE_TYPE = "C46.Corr.case"
COQ_CHECK = "C46.Corr.check_case"
COQ_MODEL_OBS = "(fun c => C46.Corr.model_obs (fst c))"
DESIGN_REF = "§5 C46"
TECHNIQUE = ("Coq proof (regexp-style matcher = declarative wildcard rules; map-counting decision = 'most specific wins / equal patterns conflict'; "
             "clean = exactly the untracked non-ignored tables; staging-all characterised, with a refuted clause) + in-Coq correspondence against "
             "IsTableNameIgnored / MatchTablePattern and dolt_add / dolt_commit / dolt_clean in an in-process engine")
LEVEL_TEXT = ("Proof (F/M for the pattern matcher, the Ignore/DontIgnore/Conflict decision — equal to 'most specific wins / same patterns conflict' "
              "for every pattern set with distinct patterns per polarity and every table name — and clean; the specificity test is proved sound "
              "(it implies inclusion of the matched names) for newline-free patterns. Staging-all: the clause 'every other change is staged' is "
              "refuted by witnesses that also fail on the real code (open known finding); the staging model rests on the correspondence; a positive "
              "staging theorem and permutation invariance of the pattern list are not proved). The model is tied to the code by running both on "
              "generated pattern sets / table names and on working sets driven through the SQL procedures, compared inside Coq.")
LEVEL_NOTE = ("Trusted: Coq kernel, Go harness + Python glue. Modelled, not verified: Go's regexp engine (modelled as a backtracking matcher over code "
              "points with '.' excluding newline and the negated class [^\\*%] including it), regexp.QuoteMeta (every rune other than ? * % is a literal), "
              "strings.EqualFold for 'dolt_rebase' (ASCII case + U+017F), diff.GetTableDeltas (match by name, then by identity), the SQL engine "
              "and root-value storage (roots are observed as name/identity/row-count triples).")
THEOREMS = ["rx_eq_glob_b", "glob_b_iff_glob", "match_table_pattern_spec", "decision_is_spec", "decision_is_spec_pk", "more_specific_sound",
            "clean_is_spec", "clean_is_spec_pk", "clean_keeps_tracked", "stage_all_every_other_change_refuted", "stage_all_rename_refuted"]
REFUTED = ["stage_all_every_other_change_refuted", "stage_all_rename_refuted"]
RULE = ("decision cases: 0-5 patterns built from the table name by wildcard substitution, respelling of runs ('*' vs '%', doubled), more-specific "
        "chains, contradicting polarities, over code points {a b A _ . \\ ? * % newline e-acute}; names include empty, newline, non-ASCII and "
        "dolt_rebase fold variants; SQL cases: head/staged/working sets with new, dropped, modified and renamed tables, 0-4 dolt_ignore rows, one of "
        "dolt_add -A / dolt_add . / dolt_commit -A / dolt_clean / -x / --dry-run; non-trivial = at least one pattern or one table change; distinct by content")
ASSUMPTIONS = ["patterns and names are valid UTF-8 (invalid UTF-8 makes regexp.Compile fail: ErrorOccurred, outside the model)",
               "within one polarity the matching patterns are distinct (dolt_ignore's primary key guarantees it at the SQL surface); with duplicates "
               "the map-size comparison of resolveConflictingPatterns reports a conflict (Example decision_duplicate_quirk)",
               "a table name is never reused by a different table inside one SQL scenario (rename detection by identity is then unambiguous)"]
REQUIRED_TAGS = ["res-ignore", "res-dont", "res-conflict", "conflict-same-pattern", "conflict-unresolved", "specific-override", "same-pattern-shadowed",
                 "wild-star", "wild-pct", "wild-q", "former-qmark-defect-class", "empty-name", "empty-pattern", "newline", "nonascii", "rebase", "backslash", "specificity-tie",
                 "sql-add", "sql-commit", "sql-clean", "sql-clean-x", "sql-dry", "sql-conflict-err", "sql-nothing-to-commit", "sql-rename",
                 "sql-drop", "sql-mod", "sql-new-ignored", "sql-drop-ignored", "sql-removed-untracked"]
KNOWN_KEY = "stage-all:tracked-table-change-with-ignored-name-not-staged"
COQ_SHARD = 400

# ---------------------------------------------------------------------------
# a Python reading of the matcher, used only for tags and for match_known
# ---------------------------------------------------------------------------


def _s(cp):
    return "".join(chr(c) for c in cp)


def _rx(p, one):
    out = "^"
    for ch in p:
        if ch == "?":
            out += one
        elif ch in "*%":
            out += ".*"
        else:
            out += _re.escape(ch)
    return _re.compile(out + r"\Z")


def _match(p, n):
    return _rx(p, ".").match(n) is not None


def _more_specific(less, a, as_coded=False):
    """as_coded: the class getMoreSpecificPatterns compiled before d28426b, "[^.*.*]" (kept only to tag the inputs on which the
    repaired defect showed); otherwise the class [^\\*%] of the code"""
    return _rx(less, r"[^.*]" if as_coded else r"[^\*%]").match(a) is not None


def _decide(pats, name, as_coded):
    """0 Ignore, 1 DontIgnore, 2 Conflict: the decision procedure with either character class"""
    if name.lower().replace("\u017f", "s") == "dolt_rebase" and len(name) == 11:
        return 0
    T = [p for p, ig in pats if ig and _match(p, name)]
    F = [p for p, ig in pats if not ig and _match(p, name)]
    if not T:
        return 1
    if not F:
        return 0
    if any(_norm(a) == _norm(b) for a in T for b in F):
        return 2
    if all(any(_more_specific(t, f, as_coded) for f in F) for t in T):
        return 1
    if all(any(_more_specific(f, t, as_coded) for t in T) for f in F):
        return 0
    return 2


def _norm(p):
    p = p.replace("*", "%")
    while "%%" in p:
        p = p.replace("%%", "%")
    return p


# ---------------------------------------------------------------------------
# generator
# ---------------------------------------------------------------------------
ALPHA = ["a", "b", "A", "_", ".", "\\", "\n", "é"]
WILD = ["*", "%", "?"]
NAMES_DEC = ["", "a", "b", "ab", "ba", "aa", "abb", "aab", "a_b", "ab_", "A", "aB", "a.b", "a\\b", "a\nb", "\n", "é", "aé", "éb",
             "*", "a*", "?", "a%b", "dolt_rebase", "DOLT_REBASE", "Dolt_Rebase", "dolt_rebaſe", "dolt_rebas", "dolt_rebase_", "xdolt_rebase"]


def _rand_name(rng):
    k = rng.random()
    if k < 0.55:
        return rng.choice(NAMES_DEC)
    return "".join(rng.choice(ALPHA[:4] + ["a", "b"]) if rng.random() < 0.8 else rng.choice(ALPHA + WILD) for _ in range(rng.randint(0, 5)))


def _wildify(rng, name):
    """a pattern that is likely to match name: replace random segments by wildcards"""
    out = []
    i = 0
    while i < len(name):
        k = rng.random()
        if k < 0.25:
            out.append(rng.choice(["*", "%", "**", "%*", "*%"]) if rng.random() < 0.85 else "%%%")
            i += rng.randint(0, 3)
        elif k < 0.45:
            out.append("?")
            i += 1
        else:
            out.append(name[i])
            i += 1
    if rng.random() < 0.25:
        out.append(rng.choice(["*", "%", "?", ""]))
    if rng.random() < 0.15:
        out.insert(0, rng.choice(["*", "%"]))
    return "".join(out)


def _respell(rng, p):
    out = ""
    for ch in p:
        if ch in "*%":
            out += rng.choice(["*", "%", "**", "%%", "*%", "%*"])
        else:
            out += ch
    return out


def _specialise(rng, p, name):
    """a pattern at least as specific as p: replace one wildcard by literal text / '?'"""
    idx = [i for i, ch in enumerate(p) if ch in "*%?"]
    if not idx:
        return p
    i = rng.choice(idx)
    rep = rng.choice(["a", "b", "?", "a*", "?*", "", "ab", "_", "%"]) if p[i] != "?" else rng.choice(["a", "b", "_", "?", "\n", "A"])
    return p[:i] + rep + p[i + 1:]


def _runs(p):
    return sum(1 for ch in p if ch in "*%")


def gen_dec(rng):
    name = _rand_name(rng)
    cap = 4 if len(name) <= 6 else 3        # the oracle enumerates splits: keep (len+1)^runs small
    pats = []
    npat = rng.choice([0, 1, 1, 2, 2, 2, 3, 3, 4, 5])
    while len(pats) < npat:
        k = rng.random()
        if pats and k < 0.2:
            p = _respell(rng, rng.choice(pats)[0])
            ig = not rng.choice(pats)[1] if rng.random() < 0.7 else rng.random() < 0.5
        elif pats and k < 0.45:
            p = _specialise(rng, rng.choice(pats)[0], name)
            ig = rng.random() < 0.5
        elif k < 0.85:
            p = _wildify(rng, name) if name else rng.choice(["", "*", "%", "?", "**", "a"])
            ig = rng.random() < 0.5
        elif k < 0.93:
            p = name
            ig = rng.random() < 0.5
        else:
            p = "".join(rng.choice(ALPHA + WILD + WILD) for _ in range(rng.randint(0, 4)))
            ig = rng.random() < 0.5
        if (p, ig) in pats or _runs(p) > cap or len(p) > 9:
            continue
        pats.append((p, ig))
    rng.shuffle(pats)
    return {"k": "dec", "pats": [{"p": [ord(c) for c in p], "ig": ig} for p, ig in pats], "name": [ord(c) for c in name]}


SQL_NAMES = ["a", "b", "ab", "ba", "aa", "bb", "abc", "a_b", "b_a", "t1", "t2", "ta", "tb", "x", "xa", "a1", "ab1", "c", "ca", "cab"]


def gen_sql(rng):
    pool = list(SQL_NAMES)
    rng.shuffle(pool)
    nid = [0]

    def fresh():
        nid[0] += 1
        return pool.pop(), nid[0]

    live = {}      # name -> (id, ver) in the working set
    head = []
    for _ in range(rng.randint(1, 4)):
        n, i = fresh()
        head.append({"o": "new", "n": n, "id": i})
        live[n] = [i, 0]
    involved = list(live)

    def phase(nops, allow_ren=True):
        ops = []
        touched = set()
        for _ in range(nops):
            k = rng.random()
            cand = [n for n in live if n not in touched]
            if k < 0.38 or not cand:
                n, i = fresh()
                ops.append({"o": "new", "n": n, "id": i})
                live[n] = [i, 0]
                touched.add(n)
                involved.append(n)
            elif k < 0.58:
                n = rng.choice(cand)
                ops.append({"o": "drop", "n": n, "id": live[n][0]})
                del live[n]
                touched.add(n)
            elif k < 0.8 or not allow_ren:
                n = rng.choice(cand)
                live[n][1] += 1
                ops.append({"o": "mod", "n": n, "id": live[n][0], "v": live[n][1]})
                touched.add(n)
            else:
                n = rng.choice(cand)
                to, _ = pool.pop(), None
                ops.append({"o": "ren", "n": n, "to": to, "id": live[n][0]})
                live[to] = live.pop(n)
                touched.add(n)
                touched.add(to)
                involved.append(to)
        return ops

    pre = phase(rng.choice([0, 0, 0, 1, 2]), allow_ren=False)
    work = phase(rng.choice([1, 2, 2, 3, 3, 4]))
    pats = {}
    for _ in range(rng.choice([0, 1, 1, 2, 2, 3, 4])):
        k = rng.random()
        base = rng.choice(involved)
        if k < 0.35:
            p = base
        elif k < 0.75:
            p = _wildify(rng, base)
        elif k < 0.85 and pats:
            p = _respell(rng, rng.choice(list(pats)))
        elif k < 0.92:
            p = rng.choice(["*", "%", "?", "??", "a*", "*a", "dolt_*", "dolt_ignore"])
        else:
            p = base[:1] + "*"
        if "\n" in p or "\\" in p or _runs(p) > 3:
            continue
        if p not in pats:
            pats[p] = rng.random() < 0.6
    act = rng.choice(["add_all", "add_all", "add_dot", "commit_all", "commit_all", "clean", "clean", "clean_x", "clean_dry"])
    return {"k": "sql", "pats": [{"p": [ord(c) for c in p], "ig": ig} for p, ig in pats.items()], "head": head,
            "ignfirst": rng.random() < 0.3, "pre": pre, "work": work, "act": act}


def _dec(pats, name):
    return {"k": "dec", "pats": [{"p": [ord(c) for c in p], "ig": ig} for p, ig in pats], "name": [ord(c) for c in name]}


FIXED_DEC = [
    _dec([], ""), _dec([("", True)], ""), _dec([("", True)], "a"), _dec([("*", True)], ""), _dec([("?", True)], ""),
    _dec([("?", True)], "\n"), _dec([("*", True)], "a\nb"), _dec([("a\nb", True)], "a\nb"), _dec([("?", True)], "é"),
    _dec([("a*", True), ("a%", False)], "ab"), _dec([("a*", True), ("a%", False), ("ab", False)], "ab"),
    _dec([("a*", True), ("ab", False)], "ab"), _dec([("a*", False), ("ab", True)], "ab"), _dec([("a?", True), ("?b", False)], "ab"),
    _dec([("a?", True), ("a*", False)], "ab"), _dec([("?", True), ("*", False)], "a"), _dec([("?*", True), ("*?", False)], "ab"),
    _dec([("a\\b", True)], "a\\b"), _dec([("a\\?", True)], "a\\b"), _dec([("a.b", True)], "aab"), _dec([("a.b", True)], "a.b"),
    _dec([("*", False)], "dolt_rebase"), _dec([("*", False)], "DOLT_rebaSE"), _dec([], "dolt_rebaſe"), _dec([("x", True)], "dolt_rebas"),
    _dec([("a**b", True), ("a%b", False)], "ab"), _dec([("a*", True), ("a*", False)], "ab"), _dec([("?", True), ("\n", False)], "\n"),
    _dec([("a*", True), ("*b", False), ("ab", True)], "ab"), _dec([("a*", True), ("*b", False), ("a?", False)], "ab"),
    # regression: the '?' class of the specificity test (repaired in d28426b)
    _dec([("_%", False), ("_?", True)], "_b"), _dec([("%a", True), ("??", False)], "ba"), _dec([("?%", True), ("*?", False)], "a"),
    _dec([("a?", True), ("a.", False)], "a."), _dec([("a?", False), ("a%", True)], "ab"),
]


def gen_cases(rng, tier):
    nd, ns = (1300, 90) if tier == "quick" else (30000, 1500)
    cases = list(FIXED_DEC)
    seen = set()
    while len(cases) < nd + len(FIXED_DEC):
        c = gen_dec(rng)
        key = repr(c)
        if key in seen:
            continue
        seen.add(key)
        cases.append(c)
    fixed_sql = [
        {"k": "sql", "pats": [{"p": [ord("a"), ord("*")], "ig": True}], "head": [{"o": "new", "n": "t1", "id": 1}, {"o": "new", "n": "ad", "id": 2}],
         "work": [{"o": "new", "n": "ab", "id": 3}, {"o": "new", "n": "c", "id": 4}, {"o": "drop", "n": "ad", "id": 2}], "act": "add_all"},
        {"k": "sql", "pats": [{"p": [ord("a"), ord("*")], "ig": True}, {"p": [ord("a"), ord("%")], "ig": False}], "head": [{"o": "new", "n": "t1", "id": 1}],
         "work": [{"o": "new", "n": "ab", "id": 2}], "act": "clean"},
        {"k": "sql", "pats": [{"p": [ord("*")], "ig": True}], "head": [{"o": "new", "n": "t1", "id": 1}], "work": [{"o": "new", "n": "ab", "id": 2}], "act": "commit_all"},
        # regression (d28426b): '_b' must be ignored — the most specific matching pattern is '_?'
        {"k": "sql", "pats": [{"p": [ord("_"), ord("%")], "ig": False}, {"p": [ord("_"), ord("?")], "ig": True}], "head": [{"o": "new", "n": "t1", "id": 1}],
         "work": [{"o": "new", "n": "_b", "id": 2}], "act": "add_all"},
    ]
    cases += fixed_sql
    for _ in range(ns):
        cases.append(gen_sql(rng))
    return cases


# ---------------------------------------------------------------------------
# Coq terms
# ---------------------------------------------------------------------------
def _pats(ps):
    return cq_list("(%s, %s)" % (cq_bytes(p["p"]), cq_bool(p["ig"])) for p in ps)


def _root(ts):
    return cq_list("mk_tbl %s %d %d" % (cq_bytes(t["n"]), t["id"], t["ver"]) for t in ts)


ACTS = {"add_all": 0, "add_dot": 1, "commit_all": 2, "clean": 3, "clean_x": 4, "clean_dry": 5}


def coq_case(case, out):
    o = out.get("obs")
    if case["k"] == "dec":
        i = "IDec %s %s" % (_pats(case["pats"]), cq_bytes(case["name"]))
        if not o or not o.get("dec") or out.get("err") or out.get("panic"):
            return "(%s, OBad)" % i
        d = o["dec"]
        return "(%s, ODec %s %d %s %s)" % (i, cq_list(cq_bool(b) for b in d["match"]), d["res"],
                                          cq_list(cq_bytes(x) for x in d["ct"]), cq_list(cq_bytes(x) for x in d["cf"]))
    if not o or not o.get("sql") or out.get("err") or out.get("panic"):
        return "(ISql %s ([], [], []) %d, OBad)" % (_pats(case["pats"]), ACTS[case["act"]])
    q = o["sql"]
    i = "ISql %s (%s, %s, %s) %d" % (_pats(q["pats"]), _root(q["preh"]), _root(q["pres"]), _root(q["prew"]), ACTS[case["act"]])
    return "(%s, OSql %d (%s, %s, %s))" % (i, q["err"], _root(q["posth"]), _root(q["posts"]), _root(q["postw"]))


# ---------------------------------------------------------------------------
# classification
# ---------------------------------------------------------------------------
def _names(ts):
    return [_s(t["n"]) for t in ts]


def _as_map(ts):
    return {_s(t["n"]): (t["id"], t["ver"]) for t in ts}


def _deltas(S, W):
    """staged -> working deltas as the implementation pairs them: by name, then by identity"""
    out = []
    for n, (i, v) in S.items():
        if n in W:
            if W[n] != (i, v):
                out.append(("mod", n, n))
        else:
            to = [m for m, (j, _) in W.items() if j == i and m not in S]
            out.append(("ren", n, to[0]) if to else ("drop", n, None))
    for m, (j, _) in W.items():
        if m not in S and not [n for n, (i, _) in S.items() if i == j and n not in W]:
            out.append(("add", None, m))
    return out


def _impl_dec(q):
    names = []
    for l in (q["prew"], q["pres"]):
        for t in l:
            n = _s(t["n"])
            if n not in names:
                names.append(n)
    return dict(zip(names, q["dec"]))


def _stage_views(q):
    """(what the property requires of the staged root, what 'filter every name' staging produces)"""
    S, W = _as_map(q["pres"]), _as_map(q["prew"])
    dec = _impl_dec(q)
    ds = _deltas(S, W)
    kind = {}
    for k, f, t in ds:
        if k == "add":
            kind[t] = "new"
        elif k == "drop":
            kind[f] = "dropped"
    prop = {}
    for n in set(S) | set(W):
        if dec.get(n) == 0 and kind.get(n) in ("new", "dropped"):
            v = S.get(n)
        else:
            v = W.get(n)
        if v is not None:
            prop[n] = v
    impl = dict(S)
    for k, f, t in ds:
        if k == "drop" and dec.get(f) == 1:
            impl.pop(f, None)
    for k, f, t in ds:
        if k in ("add", "mod") and dec.get(t) == 1:
            impl[t] = W[t]
        elif k == "ren" and dec.get(t) == 1:
            impl.pop(f, None)
            impl[t] = W[t]
    tracked_ignored = [(k, f, t) for k, f, t in ds if k in ("mod", "ren") and dec.get(t) == 0]
    return prop, impl, ds, dec, tracked_ignored


def classify(case, out):
    o = out.get("obs")
    if not o or out.get("err") or out.get("panic"):
        return ["harness-error"]
    t = []
    if case["k"] == "dec":
        d = o["dec"]
        name = _s(case["name"])
        pats = [(_s(p["p"]), p["ig"]) for p in case["pats"]]
        t.append({0: "res-ignore", 1: "res-dont", 2: "res-conflict"}.get(d["res"], "res-error"))
        T = [p for p, ig in pats if ig and _match(p, name)]
        F = [p for p, ig in pats if not ig and _match(p, name)]
        low = name.lower().replace("ſ", "s")
        if low == "dolt_rebase":
            t.append("rebase")
        elif T and F:
            t.append("both-polarities-match")
            same = any(_norm(a) == _norm(b) for a in T for b in F)
            if same:
                t.append("conflict-same-pattern")
                rest_t = [a for a in T if not any(_norm(a) == _norm(b) for b in F)]
                rest_f = [b for b in F if not any(_norm(a) == _norm(b) for a in T)]
                if any(_more_specific(a, b) and not _more_specific(b, a) for a in T + F for b in rest_t + rest_f):
                    t.append("same-pattern-shadowed")
            elif d["res"] == 2:
                t.append("conflict-unresolved")
                t.append("specificity-tie")
            else:
                t.append("specific-override")
        if _decide(pats, name, True) != _decide(pats, name, False):
            t.append("former-qmark-defect-class")
        allp = "".join(p for p, _ in pats)
        for k, ch in (("wild-star", "*"), ("wild-pct", "%"), ("wild-q", "?"), ("backslash", "\\")):
            if ch in allp:
                t.append(k)
        if name == "":
            t.append("empty-name")
        if any(p == "" for p, _ in pats):
            t.append("empty-pattern")
        if "\n" in name or "\n" in allp:
            t.append("newline")
        if any(ord(c) > 127 for c in name + allp):
            t.append("nonascii")
        if not pats:
            t.append("no-patterns")
        t.append("npat-%d" % min(len(pats), 5))
        return t
    q = o["sql"]
    act = case["act"]
    t.append({"add_all": "sql-add", "add_dot": "sql-add", "commit_all": "sql-commit", "clean": "sql-clean", "clean_x": "sql-clean-x", "clean_dry": "sql-dry"}[act])
    if q["err"] == 1:
        t.append("sql-conflict-err")
    elif q["err"] == 2:
        t.append("sql-nothing-to-commit")
    elif q["err"] == 3:
        t.append("sql-other-error")
    prop, impl, ds, dec, tracked_ignored = _stage_views(q)
    for k, f, n in ds:
        t.append({"add": "sql-new", "drop": "sql-drop", "mod": "sql-mod", "ren": "sql-rename"}[k])
        if k == "add" and dec.get(n) == 0:
            t.append("sql-new-ignored")
        if k == "drop" and dec.get(f) == 0:
            t.append("sql-drop-ignored")
    if tracked_ignored and act in ("add_all", "add_dot", "commit_all"):
        t.append("sql-tracked-ignored-change")
    if len(q["postw"]) < len(q["prew"]):
        t.append("sql-removed-untracked")
    if _as_map(q["preh"]) != _as_map(q["pres"]):
        t.append("sql-prestaged")
    return sorted(set(t))


def nontrivial(case, out):
    if case["k"] == "dec":
        return len(case["pats"]) > 0 or len(case["name"]) > 0
    return True


def match_known(finding, case, out):
    """The known class: dolt_add -A / dolt_add . / dolt_commit -A filters *every* table name through dolt_ignore, so a modified or
    renamed tracked table whose (new) name is ignored is left unstaged.  A failing case belongs to it exactly when the staged root
    the implementation produced is the one that rule yields and it differs from what the property requires."""
    if finding.get("key") != KNOWN_KEY or case.get("k") != "sql" or case.get("act") not in ("add_all", "add_dot", "commit_all"):
        return False
    o = out.get("obs")
    if not o or not o.get("sql"):
        return False
    q = o["sql"]
    prop, impl, ds, dec, tracked_ignored = _stage_views(q)
    if not tracked_ignored or impl == prop:
        return False
    if q["err"] == 0:
        return _as_map(q["posts"]) == impl and _as_map(q["prew"]) == _as_map(q["postw"])
    if q["err"] == 2 and case["act"] == "commit_all":
        return _as_map(q["preh"]) == impl and _as_map(q["posts"]) == _as_map(q["pres"])
    return False


def shrink_candidates(case):
    if case["k"] == "dec":
        ps = case["pats"]
        for i in range(len(ps)):
            yield dict(case, pats=ps[:i] + ps[i + 1:])
        for i in range(len(ps)):
            p = ps[i]["p"]
            for j in range(len(p)):
                yield dict(case, pats=ps[:i] + [{"p": p[:j] + p[j + 1:], "ig": ps[i]["ig"]}] + ps[i + 1:])
        n = case["name"]
        for j in range(len(n)):
            yield dict(case, name=n[:j] + n[j + 1:])
    else:
        ps = case["pats"]
        for i in range(len(ps)):
            yield dict(case, pats=ps[:i] + ps[i + 1:])
        w = case.get("work", [])
        for i in range(len(w) - 1, -1, -1):
            yield dict(case, work=w[:i] + w[i + 1:])
        if case.get("pre"):
            yield dict(case, pre=[])


def neighbours(case, rng):
    out = []
    if case["k"] == "dec":
        for _ in range(150):
            c = {"k": "dec", "pats": [dict(p) for p in case["pats"]], "name": list(case["name"])}
            k = rng.random()
            if k < 0.4 and c["pats"]:
                p = rng.choice(c["pats"])
                s = _s(p["p"])
                p["p"] = [ord(ch) for ch in rng.choice([_respell(rng, s), _specialise(rng, s, _s(c["name"])), s + "*", s[:-1]])]
            elif k < 0.6 and c["pats"]:
                p = rng.choice(c["pats"])
                p["ig"] = not p["ig"]
            elif k < 0.8:
                c["pats"].append({"p": [ord(ch) for ch in _wildify(rng, _s(c["name"]))], "ig": rng.random() < 0.5})
            else:
                c["name"] = [ord(ch) for ch in _rand_name(rng)]
            out.append(c)
    else:
        for a in ACTS:
            out.append(dict(case, act=a))
    return out


def search_cases(rng):
    return [gen_dec(rng) for _ in range(300)] + [gen_sql(rng) for _ in range(20)]
