"""C40 — Binlog events encode values the way MySQL replicas decode them."""
import calendar
import json as _json
import struct
from lib import vlib
from lib.vlib import cq_bytes, cq_bool, cq_Z

ID = "C40"
HARNESS_PKG = "c40"
HARNESS_RUNNER = "c40"
COQ_TARGETS = ["theories/C40/Corr.vo"]
COQ_CORR_MODULE = "Base.Str C40.Model C40.Spec C40.Corr"
COQ_CASE_TYPE = "C40.Corr.case"
COQ_CHECK = "C40.Corr.check_case"
COQ_MODEL_OBS = "(fun c => C40.Corr.model_obs (fst c))"
DESIGN_REF = "§5 C40"
TECHNIQUE = ("Coq proof of decode(encode v) = v per column type for every value of the type's domain (model of dolt's serializers against a model of "
             "the MySQL row-event decoding rules) + in-Coq correspondence: the real serializers' bytes/metadata vs the model's, the model decoder and the "
             "vendored vitess binlog decoder (mysql.CellValue) applied to the real bytes")
LEVEL_TEXT = ("Proof (P): round-trip theorems for integers (all widths, signed/unsigned), YEAR, DATE, DATETIME2 and TIMESTAMP2 for every fsp, TIME2, "
              "length-prefixed strings/blobs, ENUM/SET/BIT and the CHAR metadata, for every value in range; three are REFUTED on the faithful model and on "
              "the real code (negative TIME with 59 seconds and a fraction); YEAR 0000, JSON keys >= 256 bytes, the JSON small-format uint32 underflow and DECIMAL(M,M) were repaired "
              "(f00b2b9, 68f42a2, c26eb40): decimal_roundtrip now covers precision = scale,  year_roundtrip now covers 0000 and the former witnesses are always-run regression cases and Examples. "
              "NEWDECIMAL is proved for every precision and scale (precision = scale included) and every value; FLOAT/DOUBLE for every bit pattern; JSON binary: scalars proved, arrays/objects (small and large "
              "formats) modelled, executed and checked by correspondence with two decoders, general theorem not proved (json_scalar_roundtrip_partial). oracle_on_model is proved for every "
              "in-domain value of the proved classes. Partial: that dolt emits the model's bytes is the correspondence.")
LEVEL_NOTE = ("Trusted: Coq kernel, Go harness + Python glue, the vitess decoder as second opinion. Modelled, not verified: GMS Type.Convert, apd decimal "
              "rounding/Text, time.Time calendar arithmetic (civil fields are inputs of the model), the row-event framing and NULL bitmap, FLOAT/DOUBLE bit "
              "arithmetic (bit patterns are the values), JSON text parsing (documents are given as trees), GEOMETRY. The second JSON decoder is a Go port of MySQL's json_binary.cc rules in the harness (vitess only prints SQL; it must accept the bytes).")
THEOREMS = ["decimal_roundtrip", "float_roundtrip", "double_roundtrip", "json_scalar_roundtrip_partial", "oracle_on_model", "int_roundtrip", "year_roundtrip", "date_roundtrip", "datetime2_roundtrip", "timestamp2_roundtrip", "time2_roundtrip", "string_roundtrip",
            "blob_roundtrip", "enum_roundtrip", "set_roundtrip", "bit_roundtrip", "char_meta_roundtrip", "bit_meta_len_ok",
            "time2_neg59_refuted", "json_key_len_roundtrip", "row_roundtrip"]
REFUTED = ["time2_roundtrip for negative values with 59 seconds and non-zero microseconds: time2_neg59_refuted (open finding)"]
RULE = ("per column type: boundary values (min, max, -1, 0, powers of 256 +-1, 9-digit group boundaries, calendar and clock extremes, fsp 0..6, enum/set widths at "
        "255/256 members, length prefixes at 255/256 and 65535/65536) + random values; non-trivial = every case (each is a distinct typed value); distinct by (type, value)")
ASSUMPTIONS = ["values are in the column type's domain (the oracle is vacuous outside it)", "strings use a single-byte character set (latin1_bin / binary): declared length = byte length",
               "negative zero DECIMAL values are not generated (whether dolt can store one was not established)"]
REQUIRED_TAGS = ["row-enum-254", "row-enum-255", "row-enum-256", "json-large-object-literal", "reg-decimal-pp", "reg-year-0000", "reg-json-key256", "reg-json-oversize", "float", "double", "json", "json-large-format", "int", "year", "date", "datetime", "timestamp", "time", "time-neg", "decimal", "decimal-neg", "varchar", "char", "blob", "text", "enum", "set", "bit",
                 "len-prefix-2", "enum-2byte", "fsp-odd"]
COQ_SHARD = 700


def _b(s):
    return list(s.encode() if isinstance(s, str) else s)


def _frac(fsp, us):
    return "" if fsp == 0 else "." + ("%06d" % us)[:fsp]


def _align(fsp, us):
    unit = 10 ** (6 - fsp)
    return us - us % unit


def c_int(w, unsigned, v):
    return {"t": "int", "width": w, "unsigned": unsigned, "i": str(v), "expect": _b(str(v))}


def c_year(y):
    return {"t": "year", "i": str(y), "expect": _b("%04d" % y)}


def c_date(y, m, d):
    return {"t": "date", "Y": y, "Mo": m, "D": d, "expect": _b("%04d-%02d-%02d" % (y, m, d))}


def c_datetime(fsp, y, mo, d, h, mi, s, us):
    us = _align(fsp, us)
    return {"t": "datetime", "fsp": fsp, "Y": y, "Mo": mo, "D": d, "H": h, "Mi": mi, "S": s, "Us": us,
            "expect": _b("%04d-%02d-%02d %02d:%02d:%02d%s" % (y, mo, d, h, mi, s, _frac(fsp, us)))}


def c_timestamp(fsp, y, mo, d, h, mi, s, us):
    c = c_datetime(fsp, y, mo, d, h, mi, s, us)
    c["t"] = "timestamp"
    c["secs"] = calendar.timegm((y, mo, d, h, mi, s, 0, 0, 0))
    return c


def c_time(neg, h, mi, s, us):
    return {"t": "time", "neg": neg, "H": h, "Mi": mi, "S": s, "Us": us,
            "expect": _b("%s%02d:%02d:%02d.%06d" % ("-" if neg and (h + mi + s + us) > 0 else "", h, mi, s, us))}


def c_decimal(p, sc, neg, ip, fp):
    txt = ("-" if neg else "") + str(ip) + (("." + str(fp).rjust(sc, "0")) if sc > 0 else "")
    return {"t": "decimal", "P": p, "Sc": sc, "neg": neg, "ip": str(ip), "fp": str(fp), "dec": txt, "expect": _b(txt)}


def c_str(t, maxlen, bs):
    return {"t": t, "maxlen": maxlen, "bytes": list(bs), "expect": list(bs)}


def c_blob(t, pack, bs):
    return {"t": t, "width": pack, "bytes": list(bs), "expect": list(bs)}


def c_enum(n, v):
    return {"t": "enum", "n": n, "i": str(v), "expect": _b(str(v))}


def c_set(n, v):
    return {"t": "set", "n": n, "i": str(v), "expect": _b(str(v))}


def c_bit(n, v):
    return {"t": "bit", "n": n, "i": str(v), "expect": list(v.to_bytes((n + 7) // 8, "big"))}


DIM = [31, 28, 31, 30, 31, 30, 31, 31, 30, 31, 30, 31]


def _txt(rng, n):
    return bytes(rng.choice(b"abcdefghijklmnopqrstuvwxyzABCXYZ0123456789_-.,") for _ in range(n))


def gen_cases(rng, tier):
    k = 1 if tier == "quick" else 25
    cs = []
    # integers
    for w in (1, 2, 3, 4, 8):
        half = 256 ** w // 2
        for v in (0, 1, -1, half - 1, -half, -half + 1, 127, -128, 255, 256 % half, -256 % -half if w > 1 else -2):
            if -half <= v < half:
                cs.append(c_int(w, False, v))
        for v in (0, 1, 255 % (2 * half), 256 % (2 * half), half - 1, half, 2 * half - 1):
            cs.append(c_int(w, True, v))
        for _ in range(12 * k):
            cs.append(c_int(w, False, rng.randrange(-half, half)))
            cs.append(c_int(w, True, rng.randrange(0, 2 * half)))
    # year
    for y in (0, 1901, 1902, 1999, 2000, 2024, 2154, 2155):
        cs.append(c_year(y))
    for _ in range(10 * k):
        cs.append(c_year(rng.randint(1901, 2155)))
    # date / datetime / timestamp
    for (y, m, d) in ((1, 1, 1), (1000, 1, 1), (1969, 12, 31), (1970, 1, 1), (2000, 2, 29), (2024, 2, 29), (2038, 1, 19), (9999, 12, 31), (1582, 10, 15), (100, 3, 1)):
        cs.append(c_date(y, m, d))
        for fsp in range(7):
            cs.append(c_datetime(fsp, y, m, d, 23, 59, 59, 999999))
            cs.append(c_datetime(fsp, y, m, d, 0, 0, 0, 0))
    for _ in range(40 * k):
        y, m = rng.randint(1, 9999), rng.randint(1, 12)
        d = rng.randint(1, DIM[m - 1])
        cs.append(c_date(y, m, d))
        cs.append(c_datetime(rng.randint(0, 6), y, m, d, rng.randint(0, 23), rng.randint(0, 59), rng.randint(0, 59), rng.randrange(1000000)))
    for fsp in range(7):
        cs.append(c_timestamp(fsp, 1970, 1, 1, 0, 0, 1, 0))
        cs.append(c_timestamp(fsp, 2038, 1, 19, 3, 14, 7, 999999))
        cs.append(c_timestamp(fsp, 2001, 9, 9, 1, 46, 40, 123456))
    for _ in range(30 * k):
        y, m = rng.randint(1971, 2037), rng.randint(1, 12)
        cs.append(c_timestamp(rng.randint(0, 6), y, m, rng.randint(1, DIM[m - 1]), rng.randint(0, 23), rng.randint(0, 59), rng.randint(0, 59), rng.randrange(1000000)))
    # time
    for neg in (False, True):
        for (h, mi, s, us) in ((0, 0, 0, 0), (0, 0, 0, 1), (0, 0, 1, 0), (0, 0, 59, 0), (0, 0, 59, 500000), (0, 59, 59, 1), (1, 59, 59, 999999), (838, 59, 59, 0),
                               (838, 59, 58, 999999), (23, 59, 58, 999999), (12, 0, 0, 999999), (0, 1, 0, 0), (100, 0, 0, 0), (0, 0, 58, 1)):
            cs.append(c_time(neg, h, mi, s, us))
    for _ in range(40 * k):
        cs.append(c_time(rng.random() < 0.5, rng.choice([0, 1, 23, 100, 837, rng.randint(0, 838)]), rng.randint(0, 59), rng.choice([0, 58, 59, rng.randint(0, 59)]),
                         rng.choice([0, 1, 999999, rng.randrange(1000000)])))
    # decimal
    shapes = [(1, 0), (2, 1), (5, 2), (9, 0), (9, 9), (5, 5), (10, 0), (10, 2), (18, 9), (19, 9), (18, 6), (20, 10), (27, 18), (28, 19), (38, 0), (38, 30), (65, 30), (65, 0), (31, 30),
              (3, 2), (4, 2), (6, 3), (8, 4), (12, 3), (14, 7), (16, 8)]
    for (p, sc) in shapes:
        top_i, top_f = 10 ** (p - sc), 10 ** sc
        for neg in (False, True):
            for (ip, fp) in ((top_i - 1, top_f - 1), (1 % top_i, 0), (0, 1 % top_f), (10 ** max(0, p - sc - 1) % top_i, 10 ** max(0, sc - 1) % top_f), (999999999 % top_i, 999999999 % top_f),
                             (1000000000 % top_i, 1000000000 % top_f)):
                if not (neg and ip == 0 and fp == 0):
                    cs.append(c_decimal(p, sc, neg, ip, fp))
        cs.append(c_decimal(p, sc, False, 0, 0))
        for _ in range(3 * k):
            ip, fp = rng.randrange(top_i), rng.randrange(top_f)
            cs.append(c_decimal(p, sc, rng.random() < 0.5 and (ip + fp) > 0, ip, fp))
    # strings
    for maxlen in (1, 10, 254, 255, 256, 300, 1000, 16383, 65535):
        for n in (0, 1, min(maxlen, 255), min(maxlen, 256), min(maxlen, 300)):
            cs.append(c_str("varchar", maxlen, _txt(rng, n)))
            cs.append(c_str("varbinary", maxlen, rng.randbytes(n)))
    for maxlen in (1, 10, 254, 255):
        for n in (0, 1, min(maxlen, 200), maxlen):
            cs.append(c_str("char", maxlen, _txt(rng, n)))
    for pack in (1, 2, 3, 4):
        for n in (0, 1, 255, 256, 1000):
            if n < 256 ** pack:
                cs.append(c_blob("blob", pack, rng.randbytes(n)))
                cs.append(c_blob("text", pack, _txt(rng, n)))
    # enum / set / bit
    for n in (1, 2, 254, 255, 256, 257, 1000, 65535):
        for v in (0, 1, n, min(n, 255), min(n, 256), rng.randint(0, n)):
            cs.append(c_enum(n, v))
    for n in (1, 7, 8, 9, 16, 17, 31, 32, 33, 63, 64):
        for v in (0, 1, 2 ** n - 1, 2 ** (n - 1), rng.randrange(2 ** n)):
            cs.append(c_set(n, v))
            cs.append(c_bit(n, v))
    # rows: an ENUM column with 254 / 255 / 256 (and a few other) members followed by an INT column
    for n in (1, 254, 255, 256, 257, 65535):
        for v in sorted({0, 1, n, min(n, 255), rng.randint(0, n)}):
            for z in (0, -1, 2147483647, -2147483648, rng.randrange(-2 ** 31, 2 ** 31)):
                cs.append({"t": "row", "n": n, "i": str(v), "dec": str(z), "expect": _b("%d,%d" % (v, z))})
    # float / double (bit patterns; no NaN / infinities: the column types reject them)
    for bits in (0, 1, 0x3fc00000, 0xbfc00000, 0x7f7fffff, 0x00800000, 0x007fffff, 0x80000001, 0x4b7fffff, 0x3eaaaaab):
        cs.append({"t": "float", "bits": str(bits), "expect": []})
    for bits in (0, 1, 0x3ff8000000000000, 0xbff8000000000000, 0x7fefffffffffffff, 0x0010000000000000, 0x000fffffffffffff, 0x8000000000000001, 0x433fffffffffffff, 0x3fd5555555555555):
        cs.append({"t": "double", "bits": str(bits), "expect": []})
    for _ in range(10 * k):
        b = rng.getrandbits(32)
        if (b >> 23) & 0xff != 0xff and b != 0x80000000:
            cs.append({"t": "float", "bits": str(b), "expect": []})
        b = rng.getrandbits(64)
        if (b >> 52) & 0x7ff != 0x7ff and b != 0x8000000000000000:
            cs.append({"t": "double", "bits": str(b), "expect": []})
    # JSON documents
    docs = [None, True, False, 0, 1, -1.5, 1e308, 5e-324, "", "hi", "a" * 127, "b" * 128, "c" * 16383, "d" * 16384, [], {}, [None], [True, False, None],
            [1, "x", [2, ["y", {}]], {"k": []}], {"a": 1, "b": [True, None, "x"], "c": {"d": 2.5}}, {"": ""}, {"a": None, "ab": False, "b": True},
            {"k" * 255: 1}, {"k" * 256: 1}, {"k" * 300: [1]}, {"x": "y" * 200, "z" * 100: {"q": [1, 2, 3]}},
            ["s" * 400] * 170, ["t" * 300] * 230, {("k%03d" % i): "v" * 330 for i in range(200)},
            dict({("k%03d" % i): "v" * 330 for i in range(200)}, lit_true=True, lit_false=False, lit_null=None),          # > 64 KB object with literal members
            dict({("m%02d" % i): ("w" * 1300 if i % 3 else [None, True]) for i in range(90)}, a=None, zz=True), [[["deep"]]] , ["x", "a" * 70000], {"a": "a" * 70000},
            ["a" * 70000, "x"], ["p" * 65525], [None] * 300, [1.0] * 40]
    for _ in range(25 * k):
        docs.append(_rand_doc(rng, 3))
    for d in docs:
        cs.append({"t": "json", "json": _json.dumps(d, sort_keys=True), "expect": []})
    seen, out = set(), []
    for c in cs:
        key = repr(sorted(c.items()))
        if key not in seen:
            seen.add(key)
            out.append(c)
    return out


def _rand_doc(rng, depth):
    r = rng.random()
    if depth == 0 or r < 0.35:
        return rng.choice([None, True, False, 0, 1, -2, 3.25, 1e10, 123456789.125, "", "s", "text", _txt(rng, rng.choice([1, 5, 127, 128, 300])).decode()])
    if r < 0.65:
        return [_rand_doc(rng, depth - 1) for _ in range(rng.choice([0, 1, 2, 3, 5]))]
    return {_txt(rng, rng.choice([0, 1, 2, 3, 8])).decode(): _rand_doc(rng, depth - 1) for _ in range(rng.choice([0, 1, 2, 3, 4]))}


def _rle(bs):
    """Coq term for a byte list; long runs as (repeat c n) so that big documents stay small terms."""
    bs = list(bs)
    parts, lit, i = [], [], 0
    while i < len(bs):
        j = i
        while j < len(bs) and bs[j] == bs[i]:
            j += 1
        if j - i >= 24:
            if lit:
                parts.append(cq_bytes(lit)); lit = []
            parts.append("repeat %d %d" % (bs[i], j - i))
        else:
            lit.extend(bs[i:j])
        i = j
    if lit or not parts:
        parts.append(cq_bytes(lit))
    return "(" + " ++ ".join(parts) + ")"


def _jv(d):
    if d is None:
        return "JNull"
    if d is True:
        return "JTrue"
    if d is False:
        return "JFalse"
    if isinstance(d, (int, float)):
        return "(JNum %d)" % struct.unpack("<Q", struct.pack("<d", float(d)))[0]
    if isinstance(d, str):
        return "(JStr %s)" % _rle(d.encode())
    if isinstance(d, list):
        if len(d) >= 24 and all(x == d[0] for x in d):
            return "(JArr (repeat %s %d))" % (_jv(d[0]), len(d))
        return "(JArr [%s])" % "; ".join(_jv(x) for x in d)
    ks = sorted(d.keys(), key=lambda x: x.encode())
    return "(JObj [%s])" % "; ".join("(%s, %s)" % (_rle(k.encode()), _jv(d[k])) for k in ks)


def _value(c):
    t = c["t"]
    if t == "int":
        return "(VInt %d %s %s)" % (c["width"], cq_bool(not c["unsigned"]), cq_Z(int(c["i"])))
    if t == "year":
        return "(VYear %s)" % cq_Z(int(c["i"]))
    if t == "date":
        return "(VDate %d %d %d)" % (c["Y"], c["Mo"], c["D"])
    if t == "datetime":
        return "(VDatetime %d %d %d %d %d %d %d %d)" % (c["fsp"], c["Y"], c["Mo"], c["D"], c["H"], c["Mi"], c["S"], c["Us"])
    if t == "timestamp":
        return "(VTimestamp %d %d %d)" % (c["fsp"], c["secs"], c["Us"])
    if t == "time":
        return "(VTime %s %d %d %d %d)" % (cq_bool(c["neg"]), c["H"], c["Mi"], c["S"], c["Us"])
    if t == "decimal":
        return "(VDecimal %d %d %s %s %s)" % (c["P"], c["Sc"], cq_bool(c["neg"]), c["ip"], c["fp"])
    if t in ("varchar", "varbinary"):
        return "(VString false %d %s)" % (c["maxlen"], cq_bytes(c["bytes"]))
    if t == "char":
        return "(VString true %d %s)" % (c["maxlen"], cq_bytes(c["bytes"]))
    if t in ("blob", "text"):
        return "(VBlob %d %s)" % (c["width"], cq_bytes(c["bytes"]))
    if t == "enum":
        return "(VEnum %d %s)" % (c["n"], c["i"])
    if t == "set":
        return "(VSet %d %s)" % (c["n"], c["i"])
    if t == "float":
        return "(VFloat %s)" % c["bits"]
    if t == "double":
        return "(VDouble %s)" % c["bits"]
    if t == "json":
        return "(VJson %s)" % _jv(_json.loads(c["json"]))
    if t == "row":
        return "(VRow %d %s %s)" % (c["n"], c["i"], cq_Z(int(c["dec"])))
    return "(VBit %d %s)" % (c["n"], c["i"])


def coq_case(case, out):
    o = out.get("obs")
    if o is None or out.get("panic") or out.get("err"):
        # a panic / harness error: an observation no model agrees with and no oracle accepts
        return "(%s, {| o_data := Some [999]; o_typ := 999; o_meta := 0; o_agree := false |})" % _value(case)
    if o.get("err"):
        return "(%s, {| o_data := None; o_typ := 0; o_meta := 0; o_agree := false |})" % _value(case)
    return "(%s, {| o_data := Some %s; o_typ := %d; o_meta := %d; o_agree := %s |})" % (
        _value(case), _rle(o["data"] or []), o["typ"], o["meta"], cq_bool(o["agree"] and not o.get("decerr")))


def classify(case, out):
    o = out.get("obs")
    if o is None or out.get("panic") or out.get("err"):
        return ["harness-error"]
    t = case["t"]
    tags = [t]
    if o.get("err"):
        tags.append("serialize-error")
    if t == "time" and case["neg"]:
        tags.append("time-neg")
    if t == "decimal" and case["neg"]:
        tags.append("decimal-neg")
    if t in ("varchar", "varbinary", "char") and case["maxlen"] > 255:
        tags.append("len-prefix-2")
    if t == "enum" and case["n"] > 255:
        tags.append("enum-2byte")
    if t in ("datetime", "timestamp") and case["fsp"] % 2 == 1:
        tags.append("fsp-odd")
    if t == "row":
        tags.append("row-enum-%d" % c_n(case) if c_n(case) in (254, 255, 256) else "row-enum-other")
    if t == "json" and len(o.get("data") or []) > 4 and o["data"][4] == 1:
        doc0 = _json.loads(case["json"])
        if isinstance(doc0, dict) and any(v is None or isinstance(v, bool) for v in doc0.values()):
            tags.append("json-large-object-literal")
    if t == "decimal" and case["P"] == case["Sc"] and not o.get("err"):
        tags.append("reg-decimal-pp")
    # regression witnesses of repaired findings (always generated)
    if t == "year" and int(case["i"]) == 0:
        tags.append("reg-year-0000")
    if t == "json":
        doc = _json.loads(case["json"])
        if _any_node(doc, lambda d: isinstance(d, dict) and any(len(k.encode()) >= 256 for k in d)):
            tags.append("reg-json-key256")
        if _any_node(doc, lambda d: isinstance(d, (list, dict)) and any(_enc_len(x) > 65535 for x in (d if isinstance(d, list) else d.values()))):
            tags.append("reg-json-oversize")
    if t == "json" and len(o.get("data") or []) > 4 and o["data"][4] in (1, 3):
        tags.append("json-large-format")
    if not o.get("agree"):
        tags.append("DECODER-DISAGREES")
    return tags


def c_n(case):
    return case.get("n")


def nontrivial(case, out):
    return True


def match_known(finding, case, out):
    key = finding.get("key", "")
    t = case.get("t")
    if key == "binlog.timeSerializer:negative-time-59s-with-fraction":
        return t == "time" and case["neg"] and case["Us"] > 0 and case["S"] == 59
    return False


def _any_node(d, pred):
    if pred(d):
        return True
    if isinstance(d, list):
        return any(_any_node(x, pred) for x in d)
    if isinstance(d, dict):
        return any(_any_node(x, pred) for x in d.values())
    return False


def _enc_len(d):
    """length of encodeJsonValue's bytes (without type id), enough to recognise elements beyond the small format"""
    if d is None or isinstance(d, bool):
        return 1
    if isinstance(d, (int, float)):
        return 8
    if isinstance(d, str):
        n = len(d.encode())
        return n + (1 if n < 128 else 2 if n < 16384 else 3)
    if isinstance(d, list):
        return 4 + sum(3 + (0 if (x is None or isinstance(x, bool)) else _enc_len(x)) for x in d)
    return 4 + sum(7 + len(k.encode()) + (0 if (v is None or isinstance(v, bool)) else _enc_len(v)) for k, v in d.items())


def neighbours(case, rng):
    return []


def search_cases(rng):
    return gen_cases(rng, "quick")[:300]
