"""C07 — Committed state never contains dangling references."""
from lib.vlib import cq_bool, cq_list

ID = "C07"
HARNESS_PKG = "c07"
HARNESS_RUNNER = "c07"
COQ_TARGETS = ["theories/C07/Corr.vo"]
COQ_CORR_MODULE = "Base.Str C07.Model C07.Spec C07.Corr"
COQ_CASE_TYPE = "C07.Corr.case"
COQ_CHECK = "C07.Corr.check_case"
COQ_MODEL_OBS = "(fun c => C07.Corr.model_obs (fst c))"
COQ_SHARD = 150
DESIGN_REF = "§5 C07"
KNOWN_KEY = "nbs-addtablefiles:uninitialized-store-skips-refcheck"
KNOWN_KEY2 = "nbs-addtablefiles:refcheck-accepts-memtable-only-children"
TECHNIQUE = ("Coq proof (invariant: committed chunk set closed under references and holding its root, novel tables closed w.r.t. novel+upstream, "
             "has-cache sound; preserved by every put/flush/commit/retry/rebase/peer step) + refutation witness for table-file additions + in-Coq "
             "correspondence against a real NomsBlockStore")
LEVEL_TEXT = ("Proof (F/M for puts, flushes at arbitrary memtable sizes, commits — successful, refused, rejected —, retries, rebases and peer commits; "
              "REFUTED for table-file additions): closed_preserved / root_reachable_present (everything reachable from the committed root is present), "
              "rejected_commit_noop and rejected_put_noop (a rejected write leaves root, table set and lock unchanged), cache_sound. "
              "closed_preserved_with_table_files_refuted: AddTableFilesToManifest skips its reference check while the store root is empty, so a later "
              "accepted commit can reach a missing chunk — witness reproduced on the real NomsBlockStore (finding). "
              "closed_preserved_table_files_memtable_child_refuted: on an initialised store the check accepts children that exist only in the handle's "
              "memtable; the memtable can be dropped and a later accepted commit reaches the missing chunk — also reproduced (second finding). "
              "oracle_model_obs: the executable statement holds on the model's observations of every history without table-file additions.")
LEVEL_NOTE = ("Trusted: Coq kernel, Go harness + Python glue. Modelled, not verified: table-file bytes (C01/C06), manifest atomicity (C02), GC and "
              "conjoin (chunk sets only grow here), ghost chunks of shallow clones (none in the histories), the gcBehavior_Block retry. Other writers "
              "are peers running the same protocol (EExt publishes only chunks whose references are present). ValueStore.WriteValue is cs.Put with the "
              "value's address walker (no buffering of its own in this tree), so the same histories cover it.")
THEOREMS = ["closed_preserved", "root_reachable_present", "rejected_commit_noop", "rejected_put_noop", "cache_sound", "oracle_model_obs",
            "closed_preserved_with_table_files_refuted", "closed_preserved_table_files_memtable_child_refuted"]
REFUTED = ["closed_preserved_with_table_files_refuted", "closed_preserved_table_files_memtable_child_refuted"]
RULE = ("histories of 4-16 events on one NomsBlockStore handle with memtable capacity 10-200 bytes: puts of chunks of 6-9 bytes whose declared children "
        "are written before / after / never, commits with the current or a stale |last|, rebases, peer commits (closed or dangling), table-file "
        "additions (closed, or with a missing child) on an initialised store; non-trivial = at least one successful commit; distinct by content")
ASSUMPTIONS = ["table files are added only after the store has a non-empty root (on an uninitialised store the reference check is skipped: finding '%s'; "
               "the witness is replayed on every run once it is listed in known_findings.json)" % KNOWN_KEY,
               "added table files reference only chunks of the same file, the committed base chunk, or a chunk that is never written (a file "
               "whose child exists only in this handle's memtable/novel tables is accepted and the child can then be lost: finding '%s'; "
               "witness replayed once listed)" % KNOWN_KEY2,
               "no GC / conjoin / ghost chunks during the histories"]
REQUIRED_TAGS = ["put-dangling", "commit-ok", "commit-false", "commit-dangling", "ext-ok", "ext-noop", "addtables-ok", "addtables-dangling",
                 "rebase", "child-after-parent", "never-written-child", "small-cap"]

WITNESS2 = {"cap": 100, "events": [
    {"k": "put", "chunk": {"id": 3, "refs": [], "size": 8}}, {"k": "commit", "current": 3, "last": -1},
    {"k": "put", "chunk": {"id": 1, "refs": [], "size": 8}},
    {"k": "addtables", "chunks": [{"id": 5, "refs": [1], "size": 8}]},
    {"k": "put", "chunk": {"id": 6, "refs": [44], "size": 8}}, {"k": "commit", "current": 6, "last": -1},
    {"k": "put", "chunk": {"id": 7, "refs": [5], "size": 8}}, {"k": "commit", "current": 7, "last": -1}]}

WITNESS = {"cap": 100, "events": [{"k": "addtables", "chunks": [{"id": 5, "refs": [9], "size": 8}]},
                                  {"k": "put", "chunk": {"id": 7, "refs": [5], "size": 8}},
                                  {"k": "commit", "current": 7, "last": 0}]}


def known_open(key=None):
    from lib import vlib
    key = key or KNOWN_KEY
    return any(f.get("key") == key and str(f.get("status", "")).startswith("open") for f in vlib.load_known(ID))


def match_known(finding, case, out):
    """a table file with a missing child was accepted while the manifest root was empty"""
    o = out.get("obs") or []
    if finding.get("key") == KNOWN_KEY2:
        # a table file whose child was only in the memtable / novel tables was accepted on an initialised store
        prev, committed = 0, {30}
        pending = set()
        for ev, x in zip(case["events"], o):
            if ev["k"] == "put" and x["res"] == "ok":
                pending.add(ev["chunk"]["id"])
            if ev["k"] == "commit" and x["res"] == "ok":
                committed |= pending
                pending = set()
            if ev["k"] == "addtables" and x["res"] == "ok" and prev != 0:
                ids = {c["id"] for c in ev["chunks"]}
                if any(r not in ids and r not in committed for c in ev["chunks"] for r in c["refs"]):
                    return True
            prev = x["mroot"]
        return False
    if finding.get("key") != KNOWN_KEY:
        return False
    prev = 0
    for ev, x in zip(case["events"], o):
        if ev["k"] == "addtables" and x["res"] == "ok" and prev == 0:
            ids = {c["id"] for c in ev["chunks"]}
            if any(r not in ids for c in ev["chunks"] for r in c["refs"]):
                return True
        prev = x["mroot"]
    return False


def gen_case(rng):
    cap = rng.choice([10, 12, 14, 18, 24, 40, 40, 200])   # every chunk (6-9 bytes) fits an empty memtable
    n = rng.randint(3, 9)
    specs = {}
    for i in range(1, n + 1):
        refs = []
        for _ in range(rng.choice([0, 1, 1, 2, 3])):
            k = rng.random()
            if k < 0.7 and i > 1:
                refs.append(rng.randint(1, i - 1))
            elif k < 0.85:
                refs.append(rng.randint(1, n))          # possibly a later chunk (or itself: excluded below)
            else:
                refs.append(rng.randint(40, 43))        # never written
        refs = sorted(set(r for r in refs if r != i))
        specs[i] = {"id": i, "refs": refs, "size": rng.randint(6, 9)}
    events = []
    with_tables = rng.random() < 0.35
    base = {"id": 30, "refs": [], "size": 6}
    if with_tables:
        events += [{"k": "put", "chunk": base}, {"k": "commit", "current": 30, "last": -1}]
    order = list(specs)
    if rng.random() < 0.6:
        rng.shuffle(order)
    written = []
    for i in order:
        k = rng.random()
        if k < 0.12:
            events.append({"k": "rebase"})
        elif k < 0.24:
            cid = rng.randint(50, 59)
            refs = sorted(set(rng.choice(written + [30, 41]) for _ in range(rng.randint(0, 2)))) if (written or True) else []
            refs = [r for r in refs if r != cid]
            c = {"id": cid, "refs": refs, "size": 7}
            specs.setdefault(cid, c)
            events.append({"k": "ext", "root": cid if rng.random() < 0.85 else rng.choice([cid, 41]), "chunks": [specs[cid]]})
        elif k < 0.34 and with_tables:
            cid = rng.randint(60, 69)
            refs = sorted(set(rng.choice([30, 30, 42]) for _ in range(rng.randint(0, 2))))     # see ASSUMPTIONS / KNOWN_KEY2
            c = {"id": cid, "refs": [r for r in refs if r != cid], "size": 7}
            specs.setdefault(cid, c)
            events.append({"k": "addtables", "chunks": [specs[cid]]})
        events.append({"k": "put", "chunk": specs[i]})
        written.append(i)
        if rng.random() < 0.4:
            cur = rng.choice(written)
            events.append({"k": "commit", "current": cur, "last": -1 if rng.random() < 0.8 else rng.choice(written + [0])})
    events.append({"k": "commit", "current": rng.choice(written), "last": -1})
    if rng.random() < 0.5:
        events.append({"k": "commit", "current": rng.choice(written), "last": -1})
    return {"cap": cap, "events": events}


def gen_cases(rng, tier):
    n = 240 if tier == "quick" else 15000
    cases = [gen_case(rng) for _ in range(n)]
    if known_open():
        cases.append(WITNESS)
    if known_open(KNOWN_KEY2):
        cases.append(WITNESS2)
    return cases


RES = {"ok": "ROk", "false": "RFalse", "dangling": "RDangling", "noop": "RNoop"}


def coq_chunk(c):
    return "{| c_addr := %d; c_refs := %s; c_size := %d |}" % (c["id"], cq_list(str(r) for r in c["refs"]), c["size"])


def coq_case(case, out):
    o = out.get("obs")
    evs = []
    for j, ev in enumerate(case["events"]):
        k = ev["k"]
        if k == "put":
            evs.append("EPut %s" % coq_chunk(ev["chunk"]))
        elif k == "commit":
            last = ev["last"]
            if last < 0:
                last = o[j]["last"] if o and j < len(o) else 0
            evs.append("ECommit %d %d" % (ev["current"], last))
        elif k == "rebase":
            evs.append("ERebase")
        elif k == "ext":
            evs.append("EExt %d %s" % (ev["root"], cq_list(coq_chunk(c) for c in ev["chunks"])))
        elif k == "addtables":
            evs.append("EAddTables %s" % cq_list(coq_chunk(c) for c in ev["chunks"]))
    inp = "{| i_cap := %d; i_events := %s |}" % (case["cap"], cq_list(evs))
    if o is None or out.get("err") or out.get("panic") or any(x["res"] not in RES for x in o):
        return "(%s, [{| e_res := RNoop; e_hroot := 9998; e_mroot := 9998; e_reach := false |}])" % inp
    obs = cq_list("{| e_res := %s; e_hroot := %d; e_mroot := %d; e_reach := %s |}" % (RES[x["res"]], x["hroot"], x["mroot"], cq_bool(x["reach"])) for x in o)
    return "(%s, %s)" % (inp, obs)


def classify(case, out):
    o = out.get("obs")
    if o is None or out.get("err") or out.get("panic"):
        return ["harness-error"]
    t = []
    if case["cap"] <= 18:
        t.append("small-cap")
    put = set()
    for ev, x in zip(case["events"], o):
        k = ev["k"]
        if x["res"] not in RES:
            t.append("other-error")
        if k == "put":
            t.append("put-" + x["res"])
            c = ev["chunk"]
            if any(r < 40 and r not in put for r in c["refs"]):
                t.append("child-after-parent")
            if any(r >= 40 and r < 50 for r in c["refs"]):
                t.append("never-written-child")
            put.add(c["id"])
        elif k == "commit":
            t.append("commit-" + x["res"])
        elif k == "rebase":
            t.append("rebase")
        elif k == "ext":
            t.append("ext-" + x["res"])
        elif k == "addtables":
            t.append("addtables-" + x["res"])
        if not x["reach"]:
            t.append("unreachable-chunk")
    return sorted(set(t))


def nontrivial(case, out):
    o = out.get("obs")
    return bool(o) and any(ev["k"] == "commit" and x["res"] == "ok" for ev, x in zip(case["events"], o))


def shrink_candidates(case):
    ev = case["events"]
    for i in range(len(ev)):
        if len(ev) > 1:
            yield {"cap": case["cap"], "events": ev[:i] + ev[i + 1:]}


def neighbours(case, rng):
    return [gen_case(rng) for _ in range(60)]


def search_cases(rng):
    return [gen_case(rng) for _ in range(200)]
