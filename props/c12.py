"""C12 — Tree shape and root hash depend only on content."""
from lib import vlib
from lib.vlib import cq_bytes, cq_list

ID = "C12"
HARNESS_PKG = "c12"
HARNESS_RUNNER = "c12"
COQ_TARGETS = ["theories/C12/Corr.vo"]
COQ_CORR_MODULE = "C12.Model C12.Spec C12.Corr"
COQ_CASE_TYPE = "C12.Corr.case"
COQ_CHECK = "C12.Corr.check_case"
COQ_MODEL_OBS = "(fun c => C12.Corr.model_shape (fst c))"
COQ_SHARD = 60
DESIGN_REF = "§5 C12"
TECHNIQUE = ("Coq proof over an abstract content-defined splitter (any boundary function of the current run) + in-Coq correspondence: "
             "the real splitter's decisions, asked from the splitter itself, re-chunked by the model reproduce the real boundaries; "
             "all construction routes compared on root hash and boundaries")
LEVEL_TEXT = ("Proof (F/M): for every boundary function that sees only the items since the last boundary (the shape of keySplitter / "
              "rollingHashSplitter after Reset), every summary (address) function, every sorted item list and every sorted edit list, the "
              "incremental path over ALL levels (model of ApplyMutations: seek, chunker.advanceTo / processPrefix / skip / append / "
              "finalizeCursor / Done with resynchronisation at old boundaries, the replaced chunk entries becoming the edits of the next level) "
              "yields exactly the tree built from scratch: mutate_canonical; whole histories: history_canonical, history_independent (any two "
              "histories of sorted edit batches from the empty tree that end in the same content give the same tree - all chunks of all levels, "
              "same root); the fuel of build always suffices (build_is_tree). Hypothesis, visible in every statement: nodeBuilder.hasCapacity "
              "never forces a boundary (no_overflow); without it the statement is refuted in the model (mutate_canonical_refuted) and on the real "
              "code (known finding). Second known finding from the correspondence: commit closures are history-dependent on the real code "
              "(the splitter sees a 1-byte value on Add and a 0-byte value when old items are re-fed).")
LEVEL_NOTE = ("Trusted: Coq kernel, Go harness + Python glue. Modelled, not verified: flatbuffer serialisation and hash.Of (same items => same bytes "
              "=> same address is observed through the root-hash comparison); the cursor seek (which old chunk an edit lands in only decides what "
              "is re-fed: apply_levels_spec holds for every attribution); the model assumes the splitter is a function of the items it is "
              "given - exactly what fails for commit closures, where the item given on Add differs from the item read back; JSON documents "
              "(json_chunker.go leaf splitter) and blobs are covered by the correspondence only (routes compared; blob shape also modelled).")
THEOREMS = ["chunk_resync", "chunk_resync_tail", "chunk_level_concat", "chunk_level_canon", "mutate_level", "level_history_independent",
            "rechunk_script (parent-script invariant)", "apply_levels_spec (all levels, any edit script)", "cops_new (per-chunk attribution = sorted "
            "dictionary update)", "mutate_canonical", "history_independent", "history_canonical", "history_independent_fold", "build_is_tree",
            "merge_inc (edited list stays sorted)", "mutate_canonical_refuted (with overflow boundaries)"]
REFUTED = ["mutate_canonical_refuted"]
RULE = ("one case = one final content and 2-9 construction routes (bulk, random-order batched inserts, ascending appends, inserts then deletes, "
        "edits from a different tree, shrink from a much larger tree, edits exactly at / next to leaf chunk edges, three-way merge), for row maps, "
        "address maps, commit closures, blobs and JSON documents (serialised in one go vs reached by Set / Insert / Remove); non-trivial = at "
        "least two routes and at least two chunks, or a blob / JSON document with an internal level")
ASSUMPTIONS = ["no item is large enough to make nodeBuilder.hasCapacity fail (key+value < 49152 bytes) — except in the overflow witness cases, "
               "which are expected to fail (known finding chunker.append:overflow-boundary-not-resynced)"]
REQUIRED_TAGS = ["height2", "height3", "route:incr", "route:insdel", "route:other", "route:shrink", "route:bnd", "route:bnddel", "route:merge",
                 "route:asc1", "size-forced-boundary", "addr", "blob-internal", "blob-exact-multiple", "empty", "single-chunk", "overflow-witness",
                 "json", "json-levels3", "closure", "closure-height2", "wide-keys", "height>=3-merge", "last-leaf-edit", "first-leaf-edit",
                 "blob-reuse-shallower-multichunk-after-taller", "height4"]
HARNESS_TIMEOUT = 900

KNOWN_KEY = "chunker.append:overflow-boundary-not-resynced"
KNOWN_KEY_CLOSURE = "commit_closure:leaf-value-size-differs-on-reread"
CLOSURE_WITNESS = [
    {"kind": "closure", "seed": 1, "n": 1500, "kspace": 200, "routes": ["bulk", "incr", "asc1"]},
]
OVERFLOW_WITNESS = [
    {"kind": "map", "seed": 5, "n": 100, "kspace": 3000, "vmin": 50, "vmax": 300, "routes": ["bulk", "delbig"], "del": [65400]},
    {"kind": "map", "seed": 3, "n": 200, "kspace": 3000, "vmin": 50, "vmax": 300, "routes": ["bulk", "delbig"], "del": [65000] * 6},
]

ALL_ROUTES = ["incr", "asc1", "insdel", "other", "shrink", "bnd", "bnddel", "merge"]
TALL_ROUTES = ["mergetail", "mergehead", "merge", "incr", "insdel", "other", "bnd", "bnddel"]


def gen_tall(rng):
    """wide keys (about 1 KB): fan-out about 4 on every level, 3-5 levels with < 250 rows"""
    n = rng.randint(40, 220)
    return {"kind": "map", "seed": rng.randrange(1 << 30), "n": n, "kspace": n * rng.choice([3, 10]), "vmin": 10, "vmax": 120,
            "kpad": rng.choice([700, 1000, 1400]), "routes": ["bulk", "mergetail", "mergehead"] + rng.sample(TALL_ROUTES[2:], 2)}


def blob_levels(n, chunk):
    if n <= chunk:
        return 1 if n > 0 else 0
    fan, d, top = chunk // 20, n // chunk, 0
    while d > 0:
        d //= fan
        top += 1
    return top + 1


def gen_map(rng, big=False, small=False):
    if small:
        n = rng.choice([0, 1, 2, 3, 5, 8, 20])
        vmin, vmax = 10, 60
    else:
        shape = rng.random()
        if shape < 0.45:      # three levels: few entries per leaf
            n = rng.randint(1200, 2600); vmin, vmax = 300, 900
        elif shape < 0.8:     # two levels
            n = rng.randint(150, 1500); vmin, vmax = rng.choice([(8, 40), (20, 200), (100, 400)])
        else:
            n = rng.randint(30, 150); vmin, vmax = 20, 120
    c = {"kind": "map", "seed": rng.randrange(1 << 30), "n": n, "kspace": max(4, n) * rng.choice([2, 5, 50]),
         "vmin": vmin, "vmax": vmax}
    k = rng.randint(2, 5)
    c["routes"] = ["bulk"] + rng.sample(ALL_ROUTES, min(k, len(ALL_ROUTES)))
    if big and n > 0:
        # values above maxChunkSize (16 KiB) force a boundary inside the splitter; kept below the hasCapacity limit
        c["bigs"] = [rng.randint(16000, 40000) for _ in range(rng.randint(1, 4))]
        c["n"] = min(c["n"], 400)
        c["kspace"] = max(4, c["n"]) * 5
    return c


def gen_cases(rng, tier):
    quick = tier == "quick"
    cases = [dict(c) for c in OVERFLOW_WITNESS]
    cases.append({"kind": "map", "seed": 11, "n": 2400, "kspace": 100000, "vmin": 400, "vmax": 900,
                  "routes": ["bulk", "incr", "asc1", "insdel", "other", "shrink", "bnd", "bnddel", "merge"]})
    cases.append({"kind": "map", "seed": 12, "n": 0, "kspace": 10, "vmin": 5, "vmax": 9, "routes": ["bulk", "insdel", "shrink"]})
    for _ in range(26 if quick else 600):
        cases.append(gen_map(rng))
    for _ in range(14 if quick else 300):
        cases.append(gen_tall(rng))
    for _ in range(6 if quick else 100):
        cases.append(gen_map(rng, big=True))
    for _ in range(8 if quick else 100):
        cases.append(gen_map(rng, small=True))
    for _ in range(8 if quick else 100):
        n = rng.choice([0, 1, 30, 200, 900, 2500])
        cases.append({"kind": "addr", "seed": rng.randrange(1 << 30), "n": n, "kspace": 10 * n + 10, "vmax": rng.choice([1, 8, 40]),
                      "routes": ["bulk", "incr", "insdel"]})
    cases += [dict(c) for c in CLOSURE_WITNESS]
    cases.append({"kind": "json", "seed": 4, "n": 3000, "vmin": 20, "vmax": 200, "routes": ["bulk", "set", "insert", "remove"]})
    for _ in range(5 if quick else 80):
        n = rng.choice([0, 1, 40, 600, 2000, 4000])
        cases.append({"kind": "closure", "seed": rng.randrange(1 << 30), "n": n, "kspace": rng.choice([3, 200, 100000]),
                      "routes": ["bulk", "incr", "asc1"]})
    for _ in range(10 if quick else 150):
        n = rng.choice([0, 1, 5, 60, 600, 1500, 3000])
        cases.append({"kind": "json", "seed": rng.randrange(1 << 30), "n": n, "vmin": rng.choice([2, 20]), "vmax": rng.choice([30, 200]),
                      "routes": ["bulk", "set", "insert", "remove"]})
    for _ in range(40 if quick else 600):
        chunk = rng.choice([40, 60, 100, 200, 4000])
        fan = chunk // 20
        base = rng.choice([0, 1, chunk - 1, chunk, chunk + 1, 2 * chunk + 3, chunk * (fan - 1) + 5, chunk * fan, chunk * fan + 1, chunk * fan - 1, chunk * fan * fan,
                           chunk * fan * fan + rng.randint(0, chunk), rng.randint(0, 60 * chunk), rng.randint(0, 3 * chunk)])
        cases.append({"kind": "blob", "seed": rng.randrange(1 << 30), "n": min(base, 400000), "chunk": chunk, "routes": ["bulk", "reuse"]})
    return cases


def coq_case(case, out):
    o = out.get("obs")
    kind = 1 if case["kind"] in ("blob", "json") else 0
    if o is None or out.get("err"):
        # harness error / panic: an observation no model agrees with and no oracle accepts
        return "({| i_kind := %d; i_n := 0; i_dec := []; i_chunk := 0 |}, {| o_shape := [[999]]; o_routes := [] |})" % kind
    dec = cq_list(cq_bytes(d) for d in o["dec"])
    rl = ["(%s, %s)" % (cq_bytes(r["root"]), cq_list(cq_bytes(l or []) for l in r["levels"])) for r in o["routes"]]
    if o.get("node_addr_mismatch"):
        # BlobBuilder.Chunk returned a node that is not the node at the address it returned: two different roots for one blob
        rl.append("([], [])")
    routes = cq_list(rl)
    shape = cq_list(cq_bytes(l or []) for l in o["routes"][0]["levels"])
    if case["kind"] == "json":
        # the leaf splitter of JSON documents (json_chunker.go crossesBoundary) is not modelled: no shape is
        # predicted (blob model of 0 bytes = no levels), the routes are compared by the oracle only
        shape = "[]"
    return "({| i_kind := %d; i_n := %d; i_dec := %s; i_chunk := %d |}, {| o_shape := %s; o_routes := %s |})" % (
        kind, o["n"][0] if o["n"] else 0, dec, case.get("chunk", 0), shape, routes)


def classify(case, out):
    o = out.get("obs")
    if o is None or out.get("err"):
        return ["error"]
    t = [case["kind"]]
    lv = o["routes"][0]["levels"]
    if case["kind"] == "json":
        t.append("json-levels%d" % len(lv))
        if any(r["root"] != o["routes"][0]["root"] for r in o["routes"]):
            t.append("routes-disagree")
        return t
    if case["kind"] == "closure":
        t.append("closure-height%d" % len(lv))
        if any(r["root"] != o["routes"][0]["root"] for r in o["routes"]):
            t.append("closure-routes-disagree")
        return t
    if case["kind"] == "blob":
        if len(lv) >= 2:
            t.append("blob-internal")
        if len(lv) >= 3:
            t.append("blob-3-levels")
        c = case["chunk"]
        if case["n"] > c and case["n"] % (c * (c // 20)) == 0:
            t.append("blob-exact-multiple")
        if lv and len(lv[-1]) == 1 and lv[-1][0] == 1:
            t.append("blob-single-child-root")
        if "reuse" in case["routes"] and 2 <= len(lv) < blob_levels(case["n"] * 3 + 2 * c * (c // 20) + 7, c):
            t.append("blob-reuse-shallower-multichunk-after-taller")
        if any(r["root"] != o["routes"][0]["root"] or r["levels"] != lv for r in o["routes"]) or o.get("node_addr_mismatch"):
            t.append("routes-disagree")
        return t
    t.append("height%d" % len(lv))
    if case["n"] == 0:
        t.append("empty")
    if len(lv) == 1 and case["n"] > 0:
        t.append("single-chunk")
    for r in o["routes"][1:]:
        t.append("route:" + r["name"])
    if case.get("kpad"):
        t.append("wide-keys")
    ran = [r["name"] for r in o["routes"]]
    if ("mergetail" in ran or "mergehead" in ran) and max(o.get("merge_heights") or [0]) >= 3:
        t.append("height>=3-merge")
    if "mergetail" in ran:
        t.append("last-leaf-edit")
    if "mergehead" in ran:
        t.append("first-leaf-edit")
    if case.get("bigs") and o.get("maxval", 0) > 16384:
        t.append("size-forced-boundary")
    if case.get("del"):
        t.append("overflow-witness")
    if any(r["root"] != o["routes"][0]["root"] for r in o["routes"]):
        t.append("routes-disagree")
    return t


def nontrivial(case, out):
    o = out.get("obs")
    if o is None:
        return False
    lv = o["routes"][0]["levels"]
    if case["kind"] in ("blob", "json"):
        return len(lv) >= 2
    return len(o["routes"]) >= 2 and len(lv) >= 1 and len(lv[0]) >= 2


def match_known(finding, case, out):
    if finding.get("key") == KNOWN_KEY_CLOSURE:
        # commit closures only; nothing else about the case is constrained (any route may differ)
        return case.get("kind") == "closure" and bool(out.get("obs"))
    if finding.get("key") != KNOWN_KEY:
        return False
    o = out.get("obs")
    if not o or not case.get("del"):
        return False
    # only the delete-of-an-overflowing-row route may disagree
    r0 = o["routes"][0]
    return all(r["root"] == r0["root"] for r in o["routes"] if r["name"] != "delbig")


def shrink_candidates(case):
    if case["kind"] in ("blob", "json"):
        return
    if len(case["routes"]) > 2:
        for i in range(1, len(case["routes"])):
            c = dict(case); c["routes"] = case["routes"][:i] + case["routes"][i + 1:]
            yield c
    if case["n"] > 4:
        c = dict(case); c["n"] = case["n"] // 2
        yield c
    if case.get("del") and len(case["del"]) > 1:
        c = dict(case); c["del"] = case["del"][:len(case["del"]) // 2]
        yield c


def neighbours(case, rng):
    out = []
    for _ in range(20):
        c = dict(case); c["seed"] = rng.randrange(1 << 30)
        out.append(c)
    return out


def search_cases(rng):
    return [gen_map(rng) for _ in range(10)] + [gen_map(rng, big=True) for _ in range(5)]
