"""C43 — Conflict tables and conflict resolution are exact."""
import copy

from lib.vlib import cq_list
from props import c29 as g

ID = "C43"
HARNESS_PKG = "c43"
HARNESS_RUNNER = "c43"
COQ_TARGETS = ["theories/C43/Corr.vo"]
COQ_CORR_MODULE = "C29.Model C29.Spec C29.Corr C43.Model C43.Spec C43.Corr"
COQ_CASE_TYPE = "(list C43.Corr.pcase)"
COQ_CHECK = "C43.Corr.check_multi"
COQ_MODEL_OBS = "(fun cs => map (fun c => C43.Corr.model_obs_p (fst c) (fst (snd c))) cs)"
COQ_SHARD = 150
DESIGN_REF = "§5 C43 (on the C29 model)"
TECHNIQUE = ("Coq proof (conflict list of the merge model = the declarative conflict entries; resolve --ours/--theirs sets exactly that version, "
             "for all tables and conflict lists) + in-Coq correspondence through SQL (dolt_conflicts_<t>, CALL dolt_conflicts_resolve)")
LEVEL_TEXT = ("Proof (F/M): for every ancestor/left/right table the conflict list of the merge model is exactly the declarative conflict entries "
              "(base, ours, theirs) — unconditionally for equal schemas, in C29's schema class otherwise — and for every table and conflict list "
              "resolving with ours/theirs leaves every conflicted key with exactly that version (deleted when absent), every other key untouched, "
              "and no conflicts (resolve_spec, resolve_idempotent); the secondary-index maintenance of resolve --theirs keeps the index mirroring the table (resolve_preserves_mirror); the oracle accepts the model on every input (oracle_on_model; the check evaluates the generalisation oracle_p / model_obs_p with prior artifacts, per table of a multi-table resolve; at prior = [] it is proved equal to the single-merge check — model_obs_p_nil, oracle_p_nil, check_case_p_nil, oracle_on_model_p_nil; for every prior satisfying the decidable prior_ok (distinct keys, keys untouched by the present merge's right side, 'ours' agreeing with our row — what the generator guarantees) oracle_on_model_p proves the oracle accepts the model, with a non-empty example). Tied to the code by conflicted merges of generated divergent histories, "
              "dolt_conflicts_t and dolt_conflicts_resolve on two copies of each merge.")
LEVEL_NOTE = ("Trusted: Coq kernel, Go harness (SQL script runner), Python glue. Modelled, not verified: SQL DML (input tables are read back), the artifact "
              "map encoding, the prolly encoding of secondary indexes (the index is modelled by its entry set; resolve_preserves_mirror proves the maintenance keeps it mirroring the table, and in the quarter of the cases with an index every value of the indexed column is looked up after both resolutions and compared), "
              "schema-changing merges (dolt refuses to resolve when the table schema differs from the chosen side's: ErrConfSchIncompatible; not generated).")
THEOREMS = ["resolve_spec", "resolve_theirs_spec", "resolve_idempotent", "conflicts_exact_spec", "conflicts_exact_same_schema",
            "resolve_preserves_mirror", "conflict_keys_distinct", "mirror_build", "oracle_on_model",
            "model_obs_p_nil", "oracle_p_nil", "check_case_p_nil", "oracle_on_model_p_nil", "oracle_on_model_p", "prior_ok_nonempty"]
RULE = ("C29's generator without schema changes: 1-2 int key columns, 2-4 nullable int/varchar columns, 0-12 base rows, two branches of 0-7 "
        "inserts/updates/deletes biased to a hot set of keys and cells, optional secondary index; conflicted merge, then resolve --ours and --theirs on "
        "separate copies; in 60% of the cases a second table u with its own history and ONE resolve call naming both tables (or '.'); in 25% "
        "two successive merges (r, commit with conflicts kept, r2) so that one table carries conflict artifacts with two different their-roots; "
        "non-trivial = at least one conflict; distinct by script text")
ASSUMPTIONS = ["no schema change between the branches (dolt_conflicts_resolve rejects differing schemas)",
               "chained merges: the two merged branches edit disjoint key sets, so no key carries conflict artifacts of both generations",
               "a second merge that dolt refuses ('the table(s) t are in conflict') is checked as the single-merge case it leaves behind"]
REQUIRED_TAGS = ["conflict", "no-conflict", "modify-modify", "delete-modify", "insert-insert", "theirs-absent", "ours-absent", "untouched-rows",
                 "index-lookup-after-resolve", "multi-table-resolve", "multi-table-resolve-dot", "conflicts-from-two-merges"]


def gen_scn(rng):
    while True:
        c = g.gen_one(rng)
        if c["kind"] is None and not any("collate" in x for x in c["setup"]):   # representation variants are C29's business
            return c


def retable(stmt):
    """the same statement on table u (index ixu)"""
    for a_, b_ in (("create table t (", "create table u ("), ("create index ix on t (", "create index ixu on u ("), ("insert into t ", "insert into u "),
                   ("replace into t ", "replace into u "), ("update t set", "update u set"), ("delete from t where", "delete from u where")):
        if stmt.startswith(a_):
            return b_ + stmt[len(a_):]
    return stmt


def gen_chain(rng):
    """conflicts accumulated from two successive merges: l edits all keys, r edits K1, r2 edits K2 (disjoint), so the
    table ends up with artifacts whose their-roots differ"""
    pk = ["p0"]
    cols = [("c0", "int"), ("c1", "int" if rng.random() < 0.6 else "str")]
    k1 = [(0,), (1,), (2,)]
    k2 = [(3,), (4,), (5,)]
    setup = ["create table t (p0 int not null, c0 int, c1 %s, primary key (p0))" % g.sqlty(cols[1][1])]
    index = rng.random() < 0.3
    if index:
        setup.append("create index ix on t (c0)")
    for k in k1 + k2:
        if rng.random() < 0.75:
            setup.append("insert into t values (%d, %s)" % (k[0], ", ".join(g.lit(t, rng) for _, t in cols)))
    hc = ["c0", "c1"]
    return {"pk": pk, "setup": setup, "kind": None, "index": index, "chain": True,
            "l": g.gen_dml(rng, pk, cols, k1 + k2, k1 + k2, rng.randint(2, 7), hc),
            "r": g.gen_dml(rng, pk, cols, k1, k1, rng.randint(1, 4), hc),
            "r2": g.gen_dml(rng, pk, cols, k2, k2, rng.randint(1, 4), hc)}


def gen_one(rng):
    if rng.random() < 0.25:
        return gen_chain(rng)
    c = gen_scn(rng)
    if rng.random() < 0.6:
        # a second table with its own history: one dolt_conflicts_resolve call then names both tables (or '.')
        u = gen_scn(rng)
        for k in ("setup", "l", "r"):
            u[k] = [retable(x) for x in u[k]]
        c["u"] = u
        c["dot"] = rng.random() < 0.4
    return c


def tabs(c):
    return [("t", c, "")] + ([("u", c["u"], "_u")] if c.get("u") else [])


def with_steps(c):
    c = dict(c)
    S = []

    def q(s, keep=""):
        S.append({"q": s, "keep": keep} if keep else {"q": s})

    def sel(tn, sc):
        return "select * from %s order by %s" % (tn, ", ".join(sc["pk"]))
    for tn, sc, suf in tabs(c):
        for s in sc["setup"]:
            q(s)
    q("call dolt_commit('-Am','base')")
    for tn, sc, suf in tabs(c):
        q(sel(tn, sc), "B" + suf)
    for side in ("l", "r") + (("r2",) if c.get("chain") else ()):
        q("call dolt_checkout('main')")
        q("call dolt_checkout('-b','%s')" % side)
        for tn, sc, suf in tabs(c):
            for s in sc[side]:
                q(s)
        q("call dolt_commit('--allow-empty','-Am','%s')" % side)
        for tn, sc, suf in tabs(c):
            q(sel(tn, sc), side.upper() + suf)
    q("set @@dolt_allow_commit_conflicts=1")
    q("set @@dolt_force_transaction_commit=1")
    names = "'.'" if c.get("dot") else ", ".join("'%s'" % tn for tn, _, _ in tabs(c))
    for name, how in (("mo", "--ours"), ("mt", "--theirs")):
        q("call dolt_checkout('l')")
        q("call dolt_checkout('-b','%s')" % name)
        if c.get("chain"):
            # first merge; its conflicts are committed; the second merge adds conflicts with another their-root
            q("call dolt_merge('r')", name + "1")
            q(sel("t", c), name + "1t")
            q("select * from dolt_conflicts_t", name + "1c")
            q("call dolt_commit('--force', '-am', 'first merge, conflicts kept')", name + "1k")
            q("call dolt_merge('r2')", name)
        else:
            q("call dolt_merge('r')", name)
        for tn, sc, suf in tabs(c):
            q(sel(tn, sc), name + "t" + suf)
            q("select * from dolt_conflicts_%s" % tn, name + "c" + suf)
        q("call dolt_conflicts_resolve('%s', %s)" % (how, names), name + "r")
        for tn, sc, suf in tabs(c):
            q(sel(tn, sc), name + "rt" + suf)
            q("select count(*) from dolt_conflicts_%s" % tn, name + "rc" + suf)
            for j, v in enumerate(probes(sc)):
                # lookup through the secondary index on the first non-key column
                q("select %s from %s where c0 = %s order by %s" % (", ".join(sc["pk"]), tn, v, ", ".join(sc["pk"])), "%sx%d%s" % (name, j, suf))
    c["steps"] = S
    return c


def probes(c):
    """literals looked up through the index (none when the table has no secondary index)"""
    if not c.get("index"):
        return []
    ty = "int" if " c0 int" in c["setup"][0] else "str"
    return [str(v) for v in g.INTS] if ty == "int" else ["'%s'" % v for v in g.STRS]


def probe_val(lit):
    return g.val("s:" + lit.strip("'")) if lit.startswith("'") else int(lit)


def fixed_cases():
    base2 = ["create table t (p0 int not null, c0 int, c1 int, primary key (p0))", "insert into t values (1,1,1),(2,2,2),(3,3,3),(5,5,5)"]
    return [{"pk": ["p0"], "setup": base2,
             "l": ["update t set c0=7 where p0=1", "update t set c1=7 where p0=2", "delete from t where p0=3", "insert into t values (4,4,4)", "update t set c0=0 where p0=5"],
             "r": ["update t set c1=8 where p0=1", "update t set c1=8 where p0=2", "update t set c0=0 where p0=3", "insert into t values (4,4,5)", "delete from t where p0=5", "insert into t values (6,6,6)"],
             "kind": None, "index": False}] + [two_table_case(dot) for dot in (False, True)] + [
        {"pk": ["p0"], "setup": ["create table t (p0 int not null, c0 int, c1 int, primary key (p0))", "insert into t values (1,1,1),(2,2,2),(3,3,3),(4,4,4)"],
         "kind": None, "index": False, "chain": True,
         "l": ["update t set c0=10 where p0=1", "update t set c0=20 where p0=3", "update t set c0=40 where p0=4"],
         "r": ["update t set c0=11 where p0=1"],
         "r2": ["update t set c0=22 where p0=3", "delete from t where p0=4"]}]


def two_table_case(dot):
    def scn(tn):
        return {"pk": ["p0"], "setup": ["create table %s (p0 int not null, c0 int, c1 int, primary key (p0))" % tn, "insert into %s values (1,1,1),(2,2,2),(3,3,3)" % tn],
                "l": ["update %s set c0=7 where p0=1" % tn, "delete from %s where p0=2" % tn], "r": ["update %s set c0=8 where p0=1" % tn, "update %s set c1=9 where p0=2" % tn],
                "kind": None, "index": False}
    c = scn("t")
    c["u"] = scn("u")
    c["dot"] = dot
    return c


def gen_cases(rng, tier):
    n = 150 if tier == "quick" else 5000
    cases = fixed_cases()
    while len(cases) < n:
        cases.append(gen_one(rng))
    return [with_steps(c) for c in cases]


def parse(case, out):
    """-> list of per-table dicts (None when the script itself failed)"""
    o = out.get("obs")
    if not o:
        return None
    res = []
    for tn, sc, suf in tabs(case):
        d = parse_tab(sc, o, suf)
        if d is None:
            return None
        res.append(d)
    if case.get("chain"):
        d = res[0]
        d["prior"] = []
        for k in ("mo1", "mo1t", "mo1c", "mo1k", "mt1", "mt1t", "mt1c", "mt1k", "R2"):
            if k not in o:
                return None
            if o[k]["err"] and not k.endswith("1k"):
                d["err"] = True
                d["errtxt"] = o[k]["err"][:200]
        if d.get("refused"):
            # dolt refused the second merge ("the table(s) t are in conflict"): nothing was merged, the table still carries
            # the first merge's conflicts only -> checked as an ordinary single-merge case (ours = l, theirs = r)
            pass
        elif not d["err"]:
            pk = case["pk"]
            _, rows1 = g.read_table(o["mo1t"], pk)
            _, rows1b = g.read_table(o["mt1t"], pk)
            prior = g.read_conflicts(o["mo1c"], pk, d["s"], d["s"], d["s"])
            priorb = g.read_conflicts(o["mt1c"], pk, d["s"], d["s"], d["s"])
            _, r2 = g.read_table(o["R2"], pk)
            if rows1 != rows1b or sorted(map(repr, prior)) != sorted(map(repr, priorb)):
                d["same"] = False
            # the second merge: ours = the committed result of the first merge, theirs = r2
            d["L"], d["R"], d["prior"] = rows1, r2, prior
    return res


def parse_tab(case, o, suf):
    need0 = ("B", "L", "R", "mot", "moc", "mort", "morc", "mtt", "mtc", "mtrt", "mtrc")
    need = tuple(k + suf for k in need0) + ("mo", "mor", "mt", "mtr")
    if any(k not in o for k in need):
        return None
    if o["B" + suf]["err"] or o["L" + suf]["err"] or o["R" + suf]["err"]:
        return None
    pk = case["pk"]
    d = {}
    d["s"], d["B"] = g.read_table(o["B" + suf], pk)
    sl, d["L"] = g.read_table(o["L" + suf], pk)
    sr, d["R"] = g.read_table(o["R" + suf], pk)
    if sl != d["s"] or sr != d["s"]:
        return None
    refused = case.get("chain") and all("are in conflict" in o[k]["err"] for k in ("mo", "mt"))
    d["refused"] = bool(refused)
    d["err"] = any(o[k]["err"] for k in need if not (refused and k in ("mo", "mt")))
    d["errtxt"] = "; ".join(o[k]["err"][:200] for k in need if o[k]["err"])
    if d["err"]:
        return d
    _, d["rows"] = g.read_table(o["mot" + suf], pk)
    d["conf"] = g.read_conflicts(o["moc" + suf], pk, d["s"], d["s"], d["s"])
    conf2 = g.read_conflicts(o["mtc" + suf], pk, d["s"], d["s"], d["s"])
    _, rows2 = g.read_table(o["mtt" + suf], pk)
    d["same"] = (sorted(map(repr, conf2)) == sorted(map(repr, d["conf"])) and rows2 == d["rows"])
    _, d["ours"] = g.read_table(o["mort" + suf], pk)
    _, d["theirs"] = g.read_table(o["mtrt" + suf], pk)
    pki = list(range(len(pk)))
    for name, key in (("mo", "ours_ix"), ("mt", "theirs_ix")):
        d[key] = []
        for j, v in enumerate(probes(case)):
            res = o.get("%sx%d%s" % (name, j, suf))
            if res is None or res["err"]:
                d["err"] = True
                d["errtxt"] = "index lookup failed"
                return d
            d[key].append((probe_val(v), [g.keyN([g.val(r[i]) for i in pki]) for r in res["rows"]]))
    d["ours_left"] = g.val(o["morc" + suf]["rows"][0][0]) if o["morc" + suf]["rows"] else 99
    d["theirs_left"] = g.val(o["mtrc" + suf]["rows"][0][0]) if o["mtrc" + suf]["rows"] else 99
    d["probes"] = probes(case)
    return d


BAD = ("{| o_err := true; o_rows := []; o_conf := []; o_ours := []; o_ours_left := 9; o_theirs := []; o_theirs_left := 9; "
       "o_ours_ix := []; o_theirs_ix := [] |}")


def coq_case(case, out):
    ds = parse(case, out)
    if ds is None:
        return "[([], ({| i_s := []; i_b := []; i_l := []; i_r := []; i_probes := [] |}, %s))]" % BAD
    return cq_list(coq_tab(d) for d in ds)


def coq_tab(d):
    inp = "{| i_s := %s; i_b := %s; i_l := %s; i_r := %s; i_probes := %s |}" % (
        g.cq_sch(d["s"]), g.cq_table(d["B"]), g.cq_table(d["L"]), g.cq_table(d["R"]), cq_list(g.cq_cell(probe_val(v)) for v in d.get("probes", [])))
    prior = cq_list("(%d, (%s, %s, %s))" % (k, g.cq_orow(b), g.cq_orow(o_), g.cq_orow(t)) for k, b, o_, t in d.get("prior", []))
    return "(%s, %s)" % (prior, coq_tab2(d, inp))


def coq_tab2(d, inp):
    if d["err"] or not d["same"]:
        return "(%s, %s)" % (inp, BAD)
    conf = cq_list("(%d, (%s, %s, %s))" % (k, g.cq_orow(b), g.cq_orow(o_), g.cq_orow(t)) for k, b, o_, t in d["conf"])

    def ix(l):
        return cq_list("(%s, %s)" % (g.cq_cell(v), cq_list(str(k) for k in ks)) for v, ks in l)
    return ("(%s, {| o_err := false; o_rows := %s; o_conf := %s; o_ours := %s; o_ours_left := %d; o_theirs := %s; o_theirs_left := %d; "
            "o_ours_ix := %s; o_theirs_ix := %s |})") % (
        inp, g.cq_table(d["rows"]), conf, g.cq_table(d["ours"]), d["ours_left"], g.cq_table(d["theirs"]), d["theirs_left"],
        ix(d["ours_ix"]), ix(d["theirs_ix"]))


def classify(case, out):
    ds = parse(case, out)
    if ds is None:
        return ["harness-error"]
    t = []
    for (tn, sc, suf), d in zip(tabs(case), ds):
        t += classify_tab(sc, d)
    if case.get("chain") and ds[0].get("refused"):
        t.append("second-merge-refused")
    if case.get("chain") and not ds[0]["err"]:
        t.append("chained-merges")
        prior_keys = {k for k, _, _, _ in ds[0].get("prior", [])}
        new_keys = {k for k, _, _, _ in ds[0]["conf"]} - prior_keys
        if prior_keys and new_keys:
            t.append("conflicts-from-two-merges")     # artifacts with two different their-roots in one table
    if len(ds) > 1:
        t.append("two-tables")
        if all((not d["err"]) and d["conf"] for d in ds):
            t.append("multi-table-resolve")           # one resolve call, conflicts in both tables
            if case.get("dot"):
                t.append("multi-table-resolve-dot")
    return sorted(set(t))


def classify_tab(case, d):
    if d["err"]:
        return ["error"]
    t = ["conflict" if d["conf"] else "no-conflict"]
    if case.get("index"):
        t.append("with-index")
        if d["conf"] and any(ks for _, ks in d["theirs_ix"]):
            t.append("index-lookup-after-resolve")
    ck = set()
    for k, b, o_, th in d["conf"]:
        ck.add(k)
        if b is None:
            t.append("insert-insert")
        elif o_ is None:
            t.append("delete-modify"); t.append("ours-absent")
        elif th is None:
            t.append("delete-modify"); t.append("theirs-absent")
        else:
            t.append("modify-modify")
    if d["conf"] and any(k not in ck for k, _ in d["rows"]):
        t.append("untouched-rows")
    if not d["same"]:
        t.append("two-merges-differ")
    return t


def nontrivial(case, out):
    ds = parse(case, out)
    return bool(ds and any((not d["err"]) and d["conf"] for d in ds))


def shrink_candidates(case):
    if case.get("u"):
        for side in ("l", "r"):
            for i in range(len(case["u"][side])):
                c = copy.deepcopy(case)
                del c["u"][side][i]
                yield with_steps(c)
    for side in ("l", "r") + (("r2",) if case.get("chain") else ()):
        for i in range(len(case[side])):
            c = copy.deepcopy(case)
            del c[side][i]
            yield with_steps(c)


def neighbours(case, rng):
    out = []
    for _ in range(30):
        c = copy.deepcopy(case)
        side = rng.choice(["l", "r"])
        if c[side]:
            del c[side][rng.randrange(len(c[side]))]
        out.append(with_steps(c))
    return out


def search_cases(rng):
    out = []
    base = ["create table t (p0 int not null, c0 int, c1 int, primary key (p0))", "insert into t values (1,1,1),(2,2,2)"]
    ops = [[], ["delete from t where p0=1"], ["update t set c1=5 where p0=1"], ["update t set c1=6 where p0=1"], ["update t set c0=5 where p0=1"],
           ["insert into t values (3,7,7)"], ["insert into t values (3,8,8)"], ["update t set c1=NULL where p0=1"]]
    for a in ops:
        for b in ops:
            out.append(with_steps({"pk": ["p0"], "setup": base, "kind": None, "index": False, "l": list(a), "r": list(b)}))
    return out
