"""C43 — Conflict tables and conflict resolution are exact."""
import copy

from lib.vlib import cq_list
from props import c29 as g

ID = "C43"
HARNESS_PKG = "c43"
HARNESS_RUNNER = "c43"
COQ_TARGETS = ["theories/C43/Corr.vo"]
COQ_CORR_MODULE = "C29.Model C29.Spec C29.Corr C43.Model C43.Spec C43.Corr"
COQ_CASE_TYPE = "C43.Corr.case"
COQ_CHECK = "C43.Corr.check_case"
COQ_MODEL_OBS = "(fun c => C43.Corr.model_obs (fst c))"
COQ_SHARD = 150
DESIGN_REF = "§5 C43 (on the C29 model)"
TECHNIQUE = ("Coq proof (conflict list of the merge model = the declarative conflict entries; resolve --ours/--theirs sets exactly that version, "
             "for all tables and conflict lists) + in-Coq correspondence through SQL (dolt_conflicts_<t>, CALL dolt_conflicts_resolve)")
LEVEL_TEXT = ("Proof (F/M): for every ancestor/left/right table the conflict list of the merge model is exactly the declarative conflict entries "
              "(base, ours, theirs) — unconditionally for equal schemas, in C29's schema class otherwise — and for every table and conflict list "
              "resolving with ours/theirs leaves every conflicted key with exactly that version (deleted when absent), every other key untouched, "
              "and no conflicts (resolve_spec, resolve_idempotent); the secondary-index maintenance of resolve --theirs keeps the index mirroring the table (resolve_preserves_mirror); the oracle accepts the model on every input (oracle_on_model). Tied to the code by conflicted merges of generated divergent histories, "
              "dolt_conflicts_t and dolt_conflicts_resolve on two copies of each merge.")
LEVEL_NOTE = ("Trusted: Coq kernel, Go harness (SQL script runner), Python glue. Modelled, not verified: SQL DML (input tables are read back), the artifact "
              "map encoding, the prolly encoding of secondary indexes (the index is modelled by its entry set; resolve_preserves_mirror proves the maintenance keeps it mirroring the table, and in the quarter of the cases with an index every value of the indexed column is looked up after both resolutions and compared), "
              "schema-changing merges (dolt refuses to resolve when the table schema differs from the chosen side's: ErrConfSchIncompatible; not generated).")
THEOREMS = ["resolve_spec", "resolve_theirs_spec", "resolve_idempotent", "conflicts_exact_spec", "conflicts_exact_same_schema",
            "resolve_preserves_mirror", "conflict_keys_distinct", "mirror_build", "oracle_on_model"]
RULE = ("C29's generator without schema changes: 1-2 int key columns, 2-4 nullable int/varchar columns, 0-12 base rows, two branches of 0-7 "
        "inserts/updates/deletes biased to a hot set of keys and cells, optional secondary index; conflicted merge, then resolve --ours and --theirs on "
        "separate copies; non-trivial = at least one conflict; distinct by script text")
ASSUMPTIONS = ["no schema change between the branches (dolt_conflicts_resolve rejects differing schemas)"]
REQUIRED_TAGS = ["conflict", "no-conflict", "modify-modify", "delete-modify", "insert-insert", "theirs-absent", "ours-absent", "untouched-rows",
                 "index-lookup-after-resolve"]


def gen_one(rng):
    while True:
        c = g.gen_one(rng)
        if c["kind"] is None and not any("collate" in x for x in c["setup"]):   # representation variants are C29's business
            return c


def with_steps(c):
    c = dict(c)
    S = []

    def q(s, keep=""):
        S.append({"q": s, "keep": keep} if keep else {"q": s})
    sel = "select * from t order by %s" % ", ".join(c["pk"])
    for s in c["setup"]:
        q(s)
    q("call dolt_commit('-Am','base')")
    q(sel, "B")
    for side in ("l", "r"):
        q("call dolt_checkout('main')")
        q("call dolt_checkout('-b','%s')" % side)
        for s in c[side]:
            q(s)
        q("call dolt_commit('--allow-empty','-Am','%s')" % side)
        q(sel, side.upper())
    q("set @@dolt_allow_commit_conflicts=1")
    q("set @@dolt_force_transaction_commit=1")
    for name, how in (("mo", "--ours"), ("mt", "--theirs")):
        q("call dolt_checkout('l')")
        q("call dolt_checkout('-b','%s')" % name)
        q("call dolt_merge('r')", name)
        q(sel, name + "t")
        q("select * from dolt_conflicts_t", name + "c")
        q("call dolt_conflicts_resolve('%s', 't')" % how, name + "r")
        q(sel, name + "rt")
        q("select count(*) from dolt_conflicts_t", name + "rc")
        for j, v in enumerate(probes(c)):
            # lookup through the secondary index on the first non-key column
            q("select %s from t where c0 = %s order by %s" % (", ".join(c["pk"]), v, ", ".join(c["pk"])), "%sx%d" % (name, j))
    c["steps"] = S
    return c


def probes(c):
    """literals looked up through the index (none when the table has no secondary index)"""
    if not c.get("index"):
        return []
    ty = "int" if " c0 int" in c["setup"][0] else "str"
    return [str(v) for v in g.INTS] if ty == "int" else ["'%s'" % v for v in g.STRS]


def probe_val(lit):
    return g.val("s:" + lit.strip("'")) if lit.startswith("'") else int(lit)


def fixed_cases():
    base2 = ["create table t (p0 int not null, c0 int, c1 int, primary key (p0))", "insert into t values (1,1,1),(2,2,2),(3,3,3),(5,5,5)"]
    return [{"pk": ["p0"], "setup": base2,
             "l": ["update t set c0=7 where p0=1", "update t set c1=7 where p0=2", "delete from t where p0=3", "insert into t values (4,4,4)", "update t set c0=0 where p0=5"],
             "r": ["update t set c1=8 where p0=1", "update t set c1=8 where p0=2", "update t set c0=0 where p0=3", "insert into t values (4,4,5)", "delete from t where p0=5", "insert into t values (6,6,6)"],
             "kind": None, "index": False}]


def gen_cases(rng, tier):
    n = 200 if tier == "quick" else 5000
    cases = fixed_cases()
    while len(cases) < n:
        cases.append(gen_one(rng))
    return [with_steps(c) for c in cases]


def parse(case, out):
    o = out.get("obs")
    need = ("B", "L", "R", "mo", "mot", "moc", "mor", "mort", "morc", "mt", "mtt", "mtc", "mtr", "mtrt", "mtrc")
    if not o or any(k not in o for k in need):
        return None
    if o["B"]["err"] or o["L"]["err"] or o["R"]["err"]:
        return None
    pk = case["pk"]
    d = {}
    d["s"], d["B"] = g.read_table(o["B"], pk)
    sl, d["L"] = g.read_table(o["L"], pk)
    sr, d["R"] = g.read_table(o["R"], pk)
    if sl != d["s"] or sr != d["s"]:
        return None
    d["err"] = any(o[k]["err"] for k in need)
    d["errtxt"] = "; ".join(o[k]["err"][:200] for k in need if o[k]["err"])
    if d["err"]:
        return d
    _, d["rows"] = g.read_table(o["mot"], pk)
    d["conf"] = g.read_conflicts(o["moc"], pk, d["s"], d["s"], d["s"])
    conf2 = g.read_conflicts(o["mtc"], pk, d["s"], d["s"], d["s"])
    _, rows2 = g.read_table(o["mtt"], pk)
    d["same"] = (sorted(map(repr, conf2)) == sorted(map(repr, d["conf"])) and rows2 == d["rows"])
    _, d["ours"] = g.read_table(o["mort"], pk)
    _, d["theirs"] = g.read_table(o["mtrt"], pk)
    pki = list(range(len(pk)))
    for name, key in (("mo", "ours_ix"), ("mt", "theirs_ix")):
        d[key] = []
        for j, v in enumerate(probes(case)):
            res = o.get("%sx%d" % (name, j))
            if res is None or res["err"]:
                d["err"] = True
                d["errtxt"] = "index lookup failed"
                return d
            d[key].append((probe_val(v), [g.keyN([g.val(r[i]) for i in pki]) for r in res["rows"]]))
    d["ours_left"] = g.val(o["morc"]["rows"][0][0]) if o["morc"]["rows"] else 99
    d["theirs_left"] = g.val(o["mtrc"]["rows"][0][0]) if o["mtrc"]["rows"] else 99
    return d


def coq_case(case, out):
    d = parse(case, out)
    bad = ("{| o_err := true; o_rows := []; o_conf := []; o_ours := []; o_ours_left := 9; o_theirs := []; o_theirs_left := 9; "
           "o_ours_ix := []; o_theirs_ix := [] |}")
    if d is None:
        return "({| i_s := []; i_b := []; i_l := []; i_r := []; i_probes := [] |}, %s)" % bad
    inp = "{| i_s := %s; i_b := %s; i_l := %s; i_r := %s; i_probes := %s |}" % (
        g.cq_sch(d["s"]), g.cq_table(d["B"]), g.cq_table(d["L"]), g.cq_table(d["R"]), cq_list(g.cq_cell(probe_val(v)) for v in probes(case)))
    if d["err"] or not d["same"]:
        return "(%s, %s)" % (inp, bad)
    conf = cq_list("(%d, (%s, %s, %s))" % (k, g.cq_orow(b), g.cq_orow(o_), g.cq_orow(t)) for k, b, o_, t in d["conf"])
    def ix(l):
        return cq_list("(%s, %s)" % (g.cq_cell(v), cq_list(str(k) for k in ks)) for v, ks in l)
    return ("(%s, {| o_err := false; o_rows := %s; o_conf := %s; o_ours := %s; o_ours_left := %d; o_theirs := %s; o_theirs_left := %d; "
            "o_ours_ix := %s; o_theirs_ix := %s |})") % (
        inp, g.cq_table(d["rows"]), conf, g.cq_table(d["ours"]), d["ours_left"], g.cq_table(d["theirs"]), d["theirs_left"],
        ix(d["ours_ix"]), ix(d["theirs_ix"]))


def classify(case, out):
    d = parse(case, out)
    if d is None:
        return ["harness-error"]
    if d["err"]:
        return ["error"]
    t = ["conflict" if d["conf"] else "no-conflict"]
    if case.get("index"):
        t.append("with-index")
        if d["conf"] and any(ks for _, ks in d["theirs_ix"]):
            t.append("index-lookup-after-resolve")
    ck = set()
    for k, b, o_, th in d["conf"]:
        ck.add(k)
        if b is None:
            t.append("insert-insert")
        elif o_ is None:
            t.append("delete-modify"); t.append("ours-absent")
        elif th is None:
            t.append("delete-modify"); t.append("theirs-absent")
        else:
            t.append("modify-modify")
    if d["conf"] and any(k not in ck for k, _ in d["rows"]):
        t.append("untouched-rows")
    if not d["same"]:
        t.append("two-merges-differ")
    return sorted(set(t))


def nontrivial(case, out):
    d = parse(case, out)
    return bool(d and not d["err"] and d["conf"])


def shrink_candidates(case):
    for side in ("l", "r"):
        for i in range(len(case[side])):
            c = copy.deepcopy(case)
            del c[side][i]
            yield with_steps(c)


def neighbours(case, rng):
    out = []
    for _ in range(30):
        c = copy.deepcopy(case)
        side = rng.choice(["l", "r"])
        if c[side]:
            del c[side][rng.randrange(len(c[side]))]
        out.append(with_steps(c))
    return out


def search_cases(rng):
    out = []
    base = ["create table t (p0 int not null, c0 int, c1 int, primary key (p0))", "insert into t values (1,1,1),(2,2,2)"]
    ops = [[], ["delete from t where p0=1"], ["update t set c1=5 where p0=1"], ["update t set c1=6 where p0=1"], ["update t set c0=5 where p0=1"],
           ["insert into t values (3,7,7)"], ["insert into t values (3,8,8)"], ["update t set c1=NULL where p0=1"]]
    for a in ops:
        for b in ops:
            out.append(with_steps({"pk": ["p0"], "setup": base, "kind": None, "index": False, "l": list(a), "r": list(b)}))
    return out
