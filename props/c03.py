"""C03 — Crash at any point recovers the last acknowledged state without loss."""
import json
import os
import re
import subprocess
import tempfile

from lib import vlib
from lib.vlib import cq_bytes, cq_bool, cq_list

ID = "C03"
HARNESS_PKG = "c03"
HARNESS_RUNNER = "c03"
COQ_TARGETS = ["theories/C03/Corr.vo"]
COQ_CORR_MODULE = "Base.Str C03.Model C03.Spec C03.Corr"
COQ_CASE_TYPE = "C03.Corr.case"
COQ_CHECK = "C03.Corr.check_case"
COQ_MODEL_OBS = "(fun c => C03.Corr.model_obs (fst c))"
COQ_SHARD = 12
COQ_EVAL_TIMEOUT = 1500
DESIGN_REF = "§5 C03, §6 F10"
TECHNIQUE = ("Coq proof over a byte-level model of the chunk journal (records, CRC as a parameter, valid-prefix scan, data-loss resync, "
             "writer with flush/fsync, prefix-truncation crash model) + regenerated tags/sizes + in-Coq correspondence against the real "
             "journalWriter on damaged images of journals it wrote")
LEVEL_TEXT = ("Proof (F/M): scan_prefix — for every 32-bit checksum function, every list of well-formed records and every cut point k, "
              "scanning the first k bytes returns exactly the longest prefix of whole records, the recovered offset is their total length and "
              "(under the visible hypothesis that the torn tail embeds no CRC-valid record image, F10) the data-loss check is false; scan_app — "
              "the scan is compositional over a run of intact records; crash_recovery — for EVERY op history, EVERY intermediate state of the "
              "writer model (getBytes/flush, record append + index lookup, root record, flush, Sync, index meta, ack; the intermediate-sync "
              "commit of large writes included, threshold a parameter) and every crash image between the synced and the written length, "
              "bootstrap succeeds, the root record of the last acknowledged commit and everything before it is recovered, the recovered root is "
              "that root or one in flight, and the range table is the declarative one; crash_recovery_unsynced_lost — the synced part is a run of "
              "whole records containing the acknowledged root record, and with everything after it replaced by arbitrary bytes the scan yields "
              "those records first (exactly those when the junk validates nowhere); index_stream_covers — in every writer state the index "
              "lookups are exactly the chunk records' own ranges in order and every index meta ends at a root record with all chunk records below "
              "it looked up before the meta; data_loss_reported — non-validating garbage followed by an intact root record and a further intact "
              "record (not a final record shorter than 40 bytes) is reported. torn_tail_silent_refuted (F10) and short_final_record_missed are the "
              "two counterexamples to the unconditional statements; both reproduce on the real code. The model is tied to the code by driving "
              "the real journalWriter (journal bytes, per-op offsets and on-disk sizes, index file bytes) and reopening damaged images.")
LEVEL_NOTE = ("Trusted: Coq kernel, translator (tags, sizes, rootHashRecordSize), Go harness + Python glue. Modelled, not verified: os.File/bufio "
              "(Peek/ReadFull as list operations), the sliding window of possibleDataLossCheck (argued transparent: candidate <= bufsz, window "
              "2*bufsz), the file system (crash = the synced prefix survives, of the rest a prefix or arbitrary bytes; fsync itself is not observed "
              "by this harness, only that the root record has been handed to the OS when commitRootHash returns), snappy (payloads opaque, supplied "
              "by the implementation), hash.Of. journalMaybeSyncThreshold is a Go constant: the intermediate-sync path is proved in the model "
              "(threshold a parameter) and exercised on the real code by one 72 MiB run whose journal and index are checked on the Go side with "
              "the real parsers (the model cannot evaluate 72 MiB inside Coq).")
THEOREMS = ["layout_pinned", "scan_prefix", "scan_app", "fit_prefix_longest", "dlc_no_window", "crash_recovery", "crash_recovery_unsynced_lost",
            "crash_recovery_partial", "index_stream_covers", "data_loss_reported", "torn_tail_silent_refuted (F10)", "short_final_record_missed"]
REFUTED = ["torn_tail_silent (every truncation is discarded silently, without the no-embedded-record hypothesis): torn_tail_silent_refuted",
           "data_loss_reported without the 40-byte side condition: short_final_record_missed"]
RULE = ("a case = op history (chunk writes compressed by the real code, raw chunk records incl. duplicates and bad chunk checksums, root commits; "
        "default and small writer buffers) x damaged images (truncation at every record boundary +-1 and sampled offsets, zero fill, garbage tails, "
        "garbage followed by crafted intact records, xor damage in every field, read-only and read-write opens); non-trivial = at least one record "
        "recovered or a damaged tail discarded; distinct by op list and damage list")
ASSUMPTIONS = ["random garbage does not validate under CRC-32C (probability 2^-32 per window)",
               "distinct chunk addresses differ in their first 16 bytes"]
REQUIRED_TAGS = ["root-only-commit", "crash-image", "big-intermediate-sync", "index-meta-written", "short-final-record-missed", "trunc-mid-record", "trunc-boundary", "trunc-lt4-tail", "zero-tail", "garbage-tail", "dataloss-reported", "lone-root-after-damage",
                 "xor-damage", "small-buffer", "op-too-big", "ro-open", "rw-truncated", "root-recovered", "chunk-recovered", "dup-addr", "bad-chunk-crc",
                 "f10-witness"]

CASTAGNOLI = 0x82F63B78


def _mk_table(poly):
    t = []
    for i in range(256):
        c = i
        for _ in range(8):
            c = (c >> 1) ^ poly if c & 1 else c >> 1
        t.append(c)
    return t


_TBL = _mk_table(CASTAGNOLI)


def crc32c(bs, tbl=_TBL):
    c = 0xFFFFFFFF
    for b in bs:
        c = tbl[(c ^ b) & 255] ^ (c >> 8)
    return c ^ 0xFFFFFFFF


def be32(n):
    return [(n >> 24) & 255, (n >> 16) & 255, (n >> 8) & 255, n & 255]


def be64(n):
    return be32(n >> 32) + be32(n & 0xFFFFFFFF)


def enc_chunk(addr, payload):
    body = be32(32 + len(payload)) + [1, 2, 2] + list(addr) + [3] + list(payload)
    return body + be32(crc32c(body))


def enc_root(ts, addr):
    body = be32(40) + [1, 1, 4] + be64(ts) + [2] + list(addr)
    return body + be32(crc32c(body))


def enc_rec(r):
    return enc_chunk(r["addr"], r["full"]) if r["k"] == "chunk" else enc_root(r["ts"], r["addr"])


def rbytes(rng, n):
    return [rng.randrange(256) for _ in range(n)]


def wf_payload(rng, n):
    d = rbytes(rng, n)
    return d + be32(crc32c(d))


def gen_ops(rng, small):
    ops = []
    addrs = []
    n = rng.randint(2, 9)
    for i in range(n):
        k = rng.random()
        if k < 0.35:
            roots = [o["root"] for o in ops if o["k"] == "commit"]
            root = rng.choice(roots) if roots and rng.random() < 0.25 else rbytes(rng, 20)    # sometimes back to an earlier root
            ops.append({"k": "commit", "root": root, "ts": rng.choice([0, 1, 1700000000, rng.randrange(1 << 33), (1 << 40) + 5])})
        elif k < 0.6:
            ln = rng.choice([0, 1, 3, 10, 40, 90]) if not small else rng.choice([1, 10, 30, 70, 120])
            if rng.random() < 0.4:
                data = [rng.choice([0, 65, 66]) for _ in range(ln)]
            else:
                data = rbytes(rng, ln)
            ops.append({"k": "chunk", "data": data})
        else:
            if addrs and rng.random() < 0.2:
                a = rng.choice(addrs)
            else:
                a = rbytes(rng, 20)
                addrs.append(a)
            ln = rng.choice([1, 2, 5, 17, 33, 60]) if not small else rng.choice([1, 5, 33, 60, 100, 200])
            full = wf_payload(rng, ln)
            r = rng.random()
            if r < 0.12:
                full[-1] ^= 0x55          # bad chunk checksum
            elif r < 0.18:
                full = full[:rng.choice([0, 1, 3])]   # shorter than a checksum
            ops.append({"k": "raw", "addr": a, "full": full})
    if not any(o["k"] == "commit" for o in ops):
        ops.insert(rng.randint(1, len(ops)), {"k": "commit", "root": rbytes(rng, 20), "ts": 7})
    # a final record shorter than a root record after a commit is the witness class of short_final_case
    # (possibleDataLossCheck stops 40 bytes before EOF); random histories stay out of it
    last = ops[-1]
    if small or (last["k"] == "raw" and len(last["full"]) < 8) or (last["k"] == "chunk" and len(last["data"]) < 8):
        ops.append({"k": "commit", "root": rbytes(rng, 20), "ts": 8})
    return ops


def crafted(rng, what):
    recs = []
    for w in what:
        if w == "r":
            recs.append({"k": "root", "ts": rng.randrange(1 << 32), "addr": rbytes(rng, 20)})
        else:
            # payload >= 8 bytes: the record is at least as long as a root record (see short_final_case)
            recs.append({"k": "chunk", "addr": rbytes(rng, 20), "full": wf_payload(rng, rng.choice([4, 8, 20]))})
    return recs


def tail_mut(rng, rec, d, garbage, recs, ro=False):
    bs = list(garbage)
    for r in recs:
        bs += enc_rec(r)
    return {"k": "tail", "rec": rec, "d": d, "g": list(garbage), "recs": recs, "bytes": bs, "ro": ro}


def gen_muts(rng, nops, tier):
    muts = []
    for i in range(nops + 1):
        for d in (-1, 0, 1):
            muts.append({"k": "trunc", "rec": i, "d": d, "ro": rng.random() < 0.3})
    for _ in range(8 if tier == "quick" else 30):
        muts.append({"k": "trunc", "rec": rng.randint(0, nops), "d": rng.choice([2, 3, 4, 5, 6, 7, 8, 20, 27, 28, 29, 33, 36, 39, 45]), "ro": rng.random() < 0.3})
    for _ in range(3):
        muts.append({"k": "zero", "rec": rng.randint(0, nops), "d": rng.choice([0, 0, 1, 3, 4, 5, 17, 30]), "n": rng.choice([1, 3, 4, 8, 64, 300]), "ro": rng.random() < 0.3})
    for _ in range(3):
        muts.append(tail_mut(rng, rng.randint(0, nops), rng.choice([0, 0, 2, 9, 31]), rbytes(rng, rng.choice([1, 4, 9, 50])), [], rng.random() < 0.3))
    # damage followed by intact records
    for what in ("rc", "rr", "r", "c", "crc", "cr"):
        if rng.random() < 0.7:
            g = rbytes(rng, rng.choice([1, 5, 12])) if rng.random() < 0.8 else []
            muts.append(tail_mut(rng, rng.randint(0, nops), rng.choice([0, 0, 3, 10]), g, crafted(rng, what), rng.random() < 0.3))
    # pristine extension: intact records appended at the very end
    muts.append(tail_mut(rng, nops, 0, [], crafted(rng, rng.choice(["r", "c", "cr"])), False))
    # xor damage
    for _ in range(6):
        muts.append({"k": "xor", "rec": rng.randint(0, max(0, nops - 1)), "d": rng.choice([0, 1, 2, 3, 4, 5, 6, 10, 26, 27, 28, 30, 36, 39]),
                     "bytes": [rng.randrange(1, 256) for _ in range(rng.choice([1, 1, 1, 2, 5, 50]))], "ro": rng.random() < 0.3})
    return muts


def f10_case(rng, api):
    """A chunk whose bytes embed a valid root record followed by a valid chunk record; the journal is cut inside that
    chunk record, after the embedded bytes.  api=True: the chunk goes through ChunkToCompressedChunk (snappy keeps the
    incompressible run verbatim); api=False: the payload is written as given."""
    inner = enc_root(rng.randrange(1 << 32), rbytes(rng, 20)) + enc_chunk(rbytes(rng, 20), wf_payload(rng, 24))
    pad = rbytes(rng, 40)
    if api:
        op = {"k": "chunk", "data": rbytes(rng, 7) + inner + pad}
    else:
        d = rbytes(rng, 3) + inner + pad
        op = {"k": "raw", "addr": rbytes(rng, 20), "full": d + be32(crc32c(d))}
    ops = [{"k": "raw", "addr": rbytes(rng, 20), "full": wf_payload(rng, 9)},
           {"k": "commit", "root": rbytes(rng, 20), "ts": 1700000001},
           op]
    # cut points inside the last record, late enough to keep the embedded records whole
    muts = [{"k": "trunc", "rec": 3, "d": -dd, "ro": False} for dd in (1, 5, 20, 38)]
    muts.append({"k": "zero", "rec": 3, "d": -10, "n": 16, "ro": True})
    return {"bufsz": 0, "maxnovel": 16384, "ops": ops, "muts": muts, "tagf10": True}


def lone_root_case(rng):
    """Damage in a chunk record that is followed only by an intact root record (acknowledged): silently truncated."""
    ops = [{"k": "raw", "addr": rbytes(rng, 20), "full": wf_payload(rng, 9)},
           {"k": "commit", "root": rbytes(rng, 20), "ts": 5},
           {"k": "raw", "addr": rbytes(rng, 20), "full": wf_payload(rng, 12)},
           {"k": "commit", "root": rbytes(rng, 20), "ts": 6}]
    muts = [{"k": "xor", "rec": 2, "d": 30, "bytes": [1], "ro": False},
            {"k": "xor", "rec": 0, "d": 30, "bytes": [1], "ro": False},
            {"k": "xor", "rec": 0, "d": 30, "bytes": [1], "ro": True}]
    return {"bufsz": 0, "maxnovel": 16384, "ops": ops, "muts": muts}


def short_final_case(rng):
    """Damage, then an intact root record followed by an intact chunk record shorter than a root record (payload < 8
    bytes) at the very end of the file: possibleDataLossCheck stops looking 40 bytes before the end."""
    ops = [{"k": "raw", "addr": rbytes(rng, 20), "full": wf_payload(rng, 9)},
           {"k": "commit", "root": rbytes(rng, 20), "ts": 5}]
    muts = []
    for g, n in (([7], 1), ([], 3), (rbytes(rng, 6), 2)):
        recs = [{"k": "root", "ts": 9, "addr": rbytes(rng, 20)}, {"k": "chunk", "addr": rbytes(rng, 20), "full": wf_payload(rng, n)}]
        muts.append(tail_mut(rng, 2 if g else 1, 0 if g else 5, g, recs, False))
    return {"bufsz": 0, "maxnovel": 16384, "ops": ops, "muts": muts, "tagshort": True}


def big_case():
    """72 MiB of chunk records after one commit: crosses journalMaybeSyncThreshold (a Go constant), so writeCompressedChunk
    commits the current root by itself and flushes an index meta.  Checked on the Go side with the real parsers."""
    return {"bufsz": 0, "maxnovel": 2, "ops": [], "muts": [], "big": 72}


def root_only_case(rng):
    """commits that write nothing but a root record: the first commit into a fresh journal, root moving A -> B -> A,
    a commit right after another commit — each must be fsync'ed before it is acknowledged"""
    a, b, c = rbytes(rng, 20), rbytes(rng, 20), rbytes(rng, 20)
    ops = [{"k": "commit", "root": a, "ts": 1}, {"k": "commit", "root": b, "ts": 2}, {"k": "commit", "root": a, "ts": 3},
           {"k": "raw", "addr": rbytes(rng, 20), "full": wf_payload(rng, 12)},
           {"k": "commit", "root": c, "ts": 4}, {"k": "commit", "root": c, "ts": 5}, {"k": "commit", "root": b, "ts": 6}]
    return {"bufsz": 0, "maxnovel": 16384, "ops": ops, "muts": [{"k": "trunc", "rec": i, "d": 0, "ro": i % 2 == 0} for i in range(len(ops) + 1)]}


def small_buffer_case(rng):
    """a 100-byte writer buffer: a record that does not fit is refused, the others force flushes"""
    ops = [{"k": "raw", "addr": rbytes(rng, 20), "full": wf_payload(rng, 30)},
           {"k": "raw", "addr": rbytes(rng, 20), "full": wf_payload(rng, 200)},       # 236-byte record: "exceeds capacity"
           {"k": "commit", "root": rbytes(rng, 20), "ts": 3},
           {"k": "raw", "addr": rbytes(rng, 20), "full": wf_payload(rng, 40)},
           {"k": "raw", "addr": rbytes(rng, 20), "full": wf_payload(rng, 20)},
           {"k": "commit", "root": rbytes(rng, 20), "ts": 4}]
    return {"bufsz": 100, "maxnovel": 1, "ops": ops, "muts": gen_muts(rng, len(ops), "quick")}


def gen_cases(rng, tier):
    cases = [f10_case(rng, True), f10_case(rng, False), lone_root_case(rng), short_final_case(rng), big_case(), root_only_case(rng),
             small_buffer_case(rng)]
    n = 26 if tier == "quick" else 400
    for i in range(n):
        small = rng.random() < 0.3
        ops = gen_ops(rng, small)
        c = {"bufsz": rng.choice([64, 100, 128, 200]) if small else 0,
             "maxnovel": rng.choice([16384, 16384, 1, 2, 3]),
             "ops": ops, "muts": gen_muts(rng, len(ops), tier)}
        if tier != "quick" and i % 4 == 0:
            c["all"] = True
        cases.append(c)
    return cases


# ---------------------------------------------------------------- Coq terms
def _wrec(r):
    if r["k"] == "chunk":
        return "(WChunk %s %s)" % (cq_bytes(r["addr"]), cq_bytes(r["full"]))
    return "(WRoot %d %s)" % (r["ts"], cq_bytes(r["addr"]))


def _mut_term(case_mut, mo):
    k = mo["k"]
    at = mo["at"]
    if k == "trunc":
        return "MTrunc %d" % at
    if k == "zero":
        return "MZero %d %d" % (at, mo["n"])
    if k == "tail":
        return "MTail %d %s %s" % (at, cq_bytes(case_mut.get("g", mo["bytes"]) if case_mut is not None else mo["bytes"]),
                                   cq_list(_wrec(r) for r in (case_mut.get("recs", []) if case_mut is not None else [])))
    if k == "xor":
        return "MXor %d %s" % (at, cq_bytes(mo["bytes"]))
    if k == "crash":
        return "MCrash %d %d" % (mo["op"], at)
    return "MTrunc %d" % at


def _look(l):
    return "{| l_found := %s; l_off := %d; l_len := %d; l_st := %d; l_sum := %d |}" % (cq_bool(l["f"]), l["o"], l["l"], l["st"], l["sum"])


def _res(r):
    return ("{| r_err := %d; r_root := %s; r_off := %d; r_count := %d; r_looks := %s; r_size := %d; r_unchanged := %s; r_idx := %s |}"
            % (r["err"], cq_bytes(r["root"]), r["off"], r["count"], cq_list(_look(l) for l in r["looks"]), r["sizeafter"],
               cq_bool(r["unchanged"]), cq_bool(r["idxexists"])))


BAD = ("({| i_poly := 0; i_bufsz := 0; i_maxnovel := 0; i_ops := []; i_known := []; i_muts := []; i_big := false |}, "
       "{| o_ops := []; o_journal := [9]; o_rootsz := 0; o_recok := false; o_fn_off := 9; o_fn_n := 9; o_fn_dl := true; o_res := []; "
       "o_index := [9]; o_big := 2 |})")


def coq_case(case, out):
    o = out.get("obs")
    if o is None or out.get("err") or out.get("panic"):
        return BAD
    ops = []
    last_ts = 0
    for cop, oo in zip(case["ops"], o["ops"]):
        if oo["kind"] == 1:
            last_ts = oo["ts"]
            ops.append("OCommit %d %s" % (oo["ts"], cq_bytes(oo["addr"])))
        else:
            ops.append("OChunk %s %s %d" % (cq_bytes(oo["addr"]), cq_bytes(oo["full"]), last_ts))
    cm = list(case["muts"]) + [None] * (len(o["muts"]) - len(case["muts"]))
    muts = ["(%s, %s)" % (_mut_term(c, m), cq_bool(m["ro"])) for c, m in zip(cm, o["muts"])]
    maxnovel = case.get("maxnovel") or 16384
    big = o.get("big") or {}
    bigcode = 0 if not big.get("ran") else (1 if big["idxinv"] and big["endisroot"] else 2)
    inp = "{| i_poly := %d; i_bufsz := %d; i_maxnovel := %d; i_ops := %s; i_known := %s; i_muts := %s; i_big := %s |}" % (
        o["poly"], o["bufsz"], maxnovel, cq_list(ops), cq_list(cq_bytes(k) for k in o["known"]), cq_list(muts), cq_bool(bool(case.get("big"))))
    obs = ("{| o_ops := %s; o_journal := %s; o_rootsz := %d; o_recok := %s; o_fn_off := %d; o_fn_n := %d; o_fn_dl := %s; o_res := %s; "
           "o_index := %s; o_big := %d |}" % (
        cq_list("{| oo_ok := %s; oo_end := %d; oo_disk := %d; oo_synced := %d |}" % (cq_bool(not x["err"]), x["end"], x["diskafter"], x.get("synced", x["diskafter"]))   # no syscall trace (shrinking re-runs the plain harness): durability not judged
                for x in o["ops"]),
        cq_bytes(o["journal"]), o["rootsz"], cq_bool(o["fn"]["recordsok"]), o["fn"]["procoff"], o["fn"]["procrecs"],
        cq_bool(o["fn"]["dataloss"]), cq_list(_res(m["res"]) for m in o["muts"]), cq_bytes(o.get("index") or []), bigcode))
    return "(%s, %s)" % (inp, obs)


# ---------------------------------------------------------------- classification
def _bounds(o):
    return sorted(set([0] + [x["end"] for x in o["ops"] if not x["err"]]))


def _valid_window(bs, i, bufsz):
    """a complete CRC-valid record image starting at i; returns (size, is_root) or None"""
    if i + 8 > len(bs):
        return None
    sz = (bs[i] << 24) | (bs[i + 1] << 16) | (bs[i + 2] << 8) | bs[i + 3]
    if sz < 8 or sz > bufsz or i + sz > len(bs):
        return None
    if crc32c(bs[i:i + sz - 4]) != ((bs[i + sz - 4] << 24) | (bs[i + sz - 3] << 16) | (bs[i + sz - 2] << 8) | bs[i + sz - 1]):
        return None
    return sz, (sz >= 6 and bs[i + 4] == 1 and bs[i + 5] == 1)


def embeds_root_then_record(bs, bufsz=5 * 1024 * 1024):
    i, first = 0, False
    while i <= len(bs) - 40:
        w = _valid_window(bs, i, bufsz)
        if w:
            if first:
                return True
            first = w[1]
            i += w[0]
        else:
            i += 1
    return False


def _count_metas(idx):
    q = n = 0
    while q < len(idx):
        if idx[q] == 0:
            q += 29
        elif idx[q] == 1:
            n += 1
            q += 41
        else:
            break
    return n


def classify(case, out):
    o = out.get("obs")
    if o is None:
        return ["panic" if out.get("panic") else "harness-error"]
    t = set()
    big = o.get("big") or {}
    if big.get("ran"):
        if big["autoroots"] >= 1 and big["batches"] >= 1:
            t.add("big-intermediate-sync")
        return sorted(t)
    if _count_metas(o.get("index") or []) >= 1:
        t.add("index-meta-written")
    b = _bounds(o)
    prev_commit = True     # a fresh journal counts: nothing but the root record is written
    for x in o["ops"]:
        if x["err"]:
            continue
        if x["kind"] == 1 and prev_commit:
            t.add("root-only-commit")
        prev_commit = x["kind"] == 1
    if any(m["k"] == "crash" for m in o["muts"]):
        t.add("crash-image")
    if o["bufsz"] < 1024:
        t.add("small-buffer")
    if any(x["err"] for x in o["ops"]):
        t.add("op-too-big")
    addrs = [tuple(x["addr"]) for x in o["ops"] if x["kind"] == 0]
    if len(set(addrs)) < len(addrs):
        t.add("dup-addr")
    for x in o["ops"]:
        if x["kind"] == 0 and len(x["full"]) >= 4 and crc32c(x["full"][:-4]) != int.from_bytes(bytes(x["full"][-4:]), "big"):
            t.add("bad-chunk-crc")
    if case.get("tagf10"):
        j = o["journal"]
        for m in o["muts"]:
            if m["k"] in ("trunc", "zero") and m["res"]["err"] == 1:
                t.add("f10-witness")
    for cm, m in zip(list(case["muts"]) + [None] * len(o["muts"]), o["muts"]):
        r = m["res"]
        if case.get("tagshort") and m["k"] == "tail" and r["err"] == 0:
            t.add("short-final-record-missed")
        if m["ro"]:
            t.add("ro-open")
        if m["k"] in ("trunc", "crash"):
            if m["at"] in b:
                t.add("trunc-boundary")
            else:
                t.add("trunc-mid-record")
                prev = max(x for x in b if x <= m["at"])
                if m["at"] - prev < 4:
                    t.add("trunc-lt4-tail")
        elif m["k"] == "zero":
            t.add("zero-tail")
        elif m["k"] == "tail":
            t.add("garbage-tail" if not (cm or {}).get("recs") else "damage-then-records")
        elif m["k"] == "xor":
            t.add("xor-damage")
            if r["err"] == 0 and case["ops"][-1]["k"] == "commit" and r["root"] != o["ops"][-1]["addr"] and m["at"] < o["ops"][-1]["start"]:
                t.add("lone-root-after-damage")
        if r["err"] == 1:
            t.add("dataloss-reported")
        if r["err"] == 2:
            t.add("open-error")
        if r["err"] == 0:
            if any(r["root"]):
                t.add("root-recovered")
            if any(l["st"] == 1 for l in r["looks"]):
                t.add("chunk-recovered")
            if not m["ro"] and r["sizeafter"] < len(ApplyLen(o, m)):
                t.add("rw-truncated")
    return sorted(t)


def ApplyLen(o, m):
    j = o["journal"]
    if m["k"] in ("trunc", "crash"):
        return j[:m["at"]]
    if m["k"] == "zero":
        return j[:m["at"]] + [0] * m["n"]
    if m["k"] == "tail":
        return j[:m["at"]] + m["bytes"]
    return j


def nontrivial(case, out):
    o = out.get("obs")
    return bool(o) and ((len(o["journal"]) > 0 and len(o["muts"]) > 0) or bool((o.get("big") or {}).get("ran")))


def shrink_candidates(case):
    ms = case["muts"]
    if len(ms) > 1:
        h = len(ms) // 2
        yield dict(case, muts=ms[:h], all=False)
        yield dict(case, muts=ms[h:], all=False)
        for i in range(min(len(ms), 40)):
            yield dict(case, muts=ms[:i] + ms[i + 1:], all=False)


def neighbours(case, rng):
    out = []
    for _ in range(6):
        out.append(dict(case, muts=gen_muts(rng, len(case["ops"]), "quick"), all=False))
    return out


def search_cases(rng):
    return [lone_root_case(rng)] + [dict(c, all=True) for c in (
        {"bufsz": 0, "maxnovel": 16384, "ops": gen_ops(rng, False), "muts": []} for _ in range(3))]


def _expected_silent(o, m):
    """root and offset of the longest prefix of whole records before the cut"""
    k = m["at"]
    good = [x for x in o["ops"] if not x["err"] and x["end"] <= k]
    off = max([0] + [x["end"] for x in good])
    roots = [x["addr"] for x in good if x["kind"] == 1]
    return off, (roots[-1] if roots else [0] * 20)


def match_known(finding, case, out):
    """Two witness classes, each matched exactly (every image of the case must either behave as the property demands
    or be of the class):
    journal:torn-tail-embeds-valid-records — a truncated / zero-filled image whose torn tail (the bytes after the
      recovered prefix) contains a CRC-valid root record followed by another CRC-valid record is refused with
      ErrJournalDataLoss although nothing but a torn tail is wrong;
    journal:data-loss-check-ignores-final-record-shorter-than-root-record — damage followed by an intact root record
      and one further intact record that is the last thing in the file and shorter than 40 bytes is truncated silently."""
    o = out.get("obs")
    if o is None:
        return False
    key = finding.get("key")
    j = o["journal"]
    hit = False
    if key == "journal:torn-tail-embeds-valid-records":
        for m in o["muts"]:
            if m["k"] not in ("trunc", "zero", "crash"):
                return False
            r = m["res"]
            off, root = _expected_silent(o, m)
            if r["err"] == 0:
                if r["off"] != off or r["root"] != root:
                    return False
            elif r["err"] == 1:
                tail = j[off:m["at"]] + ([0] * m["n"] if m["k"] == "zero" else [])
                if not embeds_root_then_record(tail, o["bufsz"]):
                    return False
                hit = True
            else:
                return False
        return hit
    if key == "journal:data-loss-check-ignores-final-record-shorter-than-root-record":
        for m in o["muts"][len(case["muts"]):]:       # crash images added from the syscall trace: plain truncations
            off, root = _expected_silent(o, m)
            if m["k"] != "crash" or m["res"]["err"] != 0 or m["res"]["off"] != off or m["res"]["root"] != root:
                return False
        for cm, m in zip(case["muts"], o["muts"]):
            if m["k"] != "tail":
                return False
            recs = cm.get("recs", [])
            if len(recs) < 2 or recs[-2]["k"] != "root" or recs[-1]["k"] != "chunk" or len(enc_rec(recs[-1])) >= 40:
                return False
            if any(x["k"] == "root" for x in recs[:-2]):
                return False
            r = m["res"]
            off, root = _expected_silent(o, m)
            if r["err"] != 0 or r["off"] != off or r["root"] != root:
                return False
            hit = True
        return hit
    return False


# ---------------------------------------------------------------- durability: the syscall order of the real process
JOURNAL_NAME = "v" * 32
_MARK = re.compile(r'write\(\d+, "VERIFMARK (-?\d+) (-?\d+) ([SBAE])\\n"')
_OPEN = re.compile(r'openat\(AT_FDCWD, "([^"]*)", ([A-Z_|0-9]+)(?:, [0-7]+)?\)\s+= (\d+)')
_PWRITE = re.compile(r'pwrite64\((\d+), .*, (\d+), (\d+)\)\s+= (\d+)')
_SYNC = re.compile(r'(?:fsync|fdatasync)\((\d+)\)\s+= 0')
_TRUNC = re.compile(r'ftruncate\((\d+), (\d+)\)\s+= 0')
_CLOSE = re.compile(r'close\((\d+)\)\s+= 0')


def strace_sync(binary, cases, timeout=900):
    """Runs every history through the real writer in a child process under strace (runner c03sync brackets each API call
    with marker writes) and returns, per case, {op index: (bytes written to the journal fd, bytes covered by an fsync)}
    at the moment the call returned."""
    fd, log = tempfile.mkstemp(prefix="c03-strace-", dir="/tmp")
    os.close(fd)
    try:
        inp = "".join(json.dumps(c, separators=(",", ":")) + "\n" for c in cases)
        p = subprocess.run(["strace", "-f", "-qq", "-s", "64", "-e", "trace=pwrite64,write,fsync,fdatasync,ftruncate,openat,close",
                            "-o", log, binary, "c03sync"], input=inp, capture_output=True, text=True, timeout=timeout)
        if p.returncode != 0:
            raise vlib.HarnessError("strace run failed rc=%s: %s" % (p.returncode, p.stderr[-1500:]))
        res = [dict() for _ in cases]
        pending = {}
        cur, jfd, written, synced = None, None, 0, 0
        with open(log, errors="replace") as f:
            for line in f:
                m = re.match(r"(\d+)\s+(.*)$", line.rstrip("\n"))
                if not m:
                    continue
                pid, txt = m.group(1), m.group(2)
                if txt.endswith("<unfinished ...>"):
                    pending[pid] = txt[:-len("<unfinished ...>")].rstrip()
                    continue
                r = re.match(r"<\.\.\. \w+ resumed>(.*)$", txt)
                if r:
                    txt = pending.pop(pid, "") + r.group(1).lstrip()
                mk = _MARK.search(txt)
                if mk:
                    c, op, what = int(mk.group(1)), int(mk.group(2)), mk.group(3)
                    if what == "S":
                        cur, jfd, written, synced = c, None, 0, 0
                    elif what == "E":
                        cur = None
                    elif what == "A" and cur is not None and 0 <= cur < len(res):
                        res[cur][op] = (written, synced)
                    continue
                if cur is None:
                    continue
                o = _OPEN.search(txt)
                if o:
                    if o.group(1).endswith("/" + JOURNAL_NAME) and "O_CREAT" in o.group(2):
                        jfd = o.group(3)
                    continue
                if jfd is None:
                    continue
                w = _PWRITE.search(txt)
                if w and w.group(1) == jfd:
                    written = max(written, int(w.group(3)) + int(w.group(4)))
                    continue
                y = _SYNC.search(txt)
                if y and y.group(1) == jfd:
                    synced = written
                    continue
                tr = _TRUNC.search(txt)
                if tr and tr.group(1) == jfd:
                    written = int(tr.group(2))
                    synced = min(synced, written)
                    continue
                cl = _CLOSE.search(txt)
                if cl and cl.group(1) == jfd:
                    jfd = None
        return res
    finally:
        try:
            os.remove(log)
        except OSError:
            pass


def run_impl(ctx, binary, cases):
    """1. durability run under strace: fsync'ed / written journal length when each call returned;
       2. the main run, with crash images derived from that trace added to every case: for each call, the file prefixes
          of the fsync'ed length, of the written length and one in between (a power loss right after the call returned);
       the per-op fsync'ed length is merged into the observation (oo_synced)."""
    sync = strace_sync(binary, cases)
    cases2 = []
    for c, sy in zip(cases, sync):
        extra = []
        for i in sorted(sy):
            wr, sn = sy[i]
            for k in sorted(set([sn, wr] + ([(sn + wr) // 2] if i % 3 == 0 else []))):
                extra.append({"k": "crash", "op": i, "at": k, "ro": (i + k) % 3 == 0})
        cases2.append(dict(c, muts=list(c["muts"]) + extra) if extra else c)
    outs = vlib.run_harness(binary, HARNESS_RUNNER, cases2, timeout=1800)
    for o, sy in zip(outs, sync):
        ob = o.get("obs")
        if ob:
            for i, x in enumerate(ob["ops"]):
                if i not in sy:
                    raise vlib.HarnessError("no syscall trace for op %d" % i)
                x["synced"] = sy[i][1]
                x["tracewritten"] = sy[i][0]
    return outs
