"""C20 — Ref updates are linearizable and never lose a concurrent update."""
from lib.vlib import cq_bool, cq_list

ID = "C20"
HARNESS_PKG = "c20"
HARNESS_RUNNER = "c20"
COQ_TARGETS = ["theories/C20/Corr.vo"]
COQ_CORR_MODULE = "Base.Str C20.Model C20.Spec C20.Corr"
COQ_CASE_TYPE = "C20.Corr.case"
COQ_CHECK = "C20.Corr.check_case"
COQ_MODEL_OBS = "(fun c => C20.Corr.model_obs (fst c))"
COQ_SHARD = 150
DESIGN_REF = "§5 C20"
TECHNIQUE = ("Coq proof (small-step optimistic read/edit/CAS/retry machine over per-client cached roots refines the atomic guarded-assignment spec, "
             "for every schedule) + in-Coq correspondence against real datas.Database handles over shared chunk stores")
LEVEL_TEXT = ("Proof (F/M, correspondence P): for every schedule (list (client*step)) of the model of database.update with the edit closures of "
              "doCommit/doFastForward/doSetHead/doDelete/doUpdateWorkingSet/CommitWithWorkingSet/doTag, the persisted dataset map equals the "
              "one-at-a-time application of the successful operations in CAS order, every success had its condition true in the state it was applied "
              "to, every returned result is consistent with that order, a written value is replaced only by a later operation naming the dataset, and "
              "ordinary commits / fast-forwards move a head only to a descendant. The model is tied to the code by API-granularity histories over "
              "several Database handles (stale views/handles force the retry path; goroutine batches are checked for a linearization).")
LEVEL_NOTE = ("Trusted: Coq kernel, Go harness + Python glue. Modelled, not verified: the chunk store's root compare-and-swap is one atomic step "
              "(MemoryStorage.Update under its mutex; NBS manifest update under the file lock: C02), root-hash equality is equality of dataset maps "
              "(address injectivity), Go scheduler. doDelete can abort with ErrMergeNeeded when the head moves between two of its own attempts: "
              "stated in the spec (consistent, third disjunct). A failed call may be answered from a stale cached root when the client's view was "
              "not rebased (second disjunct quantifies over prefixes of the order). SQL-level histories observe branch and tag heads only "
              "(not working-set hashes); a failed SQL statement is required to have no effect but its error is not matched against the guard.")
THEOREMS = ["update_linearizable", "no_lost_update", "cond_update_respects_check", "ordinary_moves_forward", "forced_are_writes",
            "cond_update_respects_check_nbs_lockhash_refuted", "oracle_model_obs"]
REFUTED = ["cond_update_respects_check_nbs_lockhash_refuted"]
RULE = ("histories of 4-12 API calls by 2-3 handles (commit / forced commit / fast-forward / set-head / delete with and without working-set check / "
        "working-set update / commit+working-set / tag) on 2 branches, 2 working sets, 1 tag, interleaved with rebase and handle refresh; concurrent "
        "batches of 2-4 calls; plus SQL-level histories: 2-4 sessions of one engine issuing dolt_commit / dolt_branch -f / dolt_reset --hard / "
        "dolt_branch -D / dolt_branch <new> <start> / dolt_checkout -b / dolt_tag on main, b1, b2, sequentially (some sessions inside an open "
        "transaction) or from goroutines; the successful statements with the commits they installed (parents from dolt_commit_ancestors) must "
        "linearize to the final dolt_branches / dolt_tags heads; non-trivial = at least one call took effect; distinct by content")
ASSUMPTIONS = ["each client handle is used by one goroutine at a time", "no GC / table-file conjoin during the histories",
               "NBS-backed concurrent batches do not contain two byte-identical calls: on an NBS store both report success (finding "
               "'nbs-manifest-lock:identical-concurrent-update-both-succeed'; the witness is replayed on every run once it is listed in known_findings.json)"]
REQUIRED_TAGS = ["seq", "conc", "ok", "merge", "lock", "retry-path", "stale-fail", "delete-ok", "dirty", "conc-contended", "nbs", "commitws-ok", "ff-ok", "forced",
                 "sql-seq", "sql-conc", "sql-commit-ok", "sql-branchf-ok", "sql-reset-ok", "sql-delete-ok", "sql-create-ok", "sql-tag-ok", "sql-fail", "sql-stale-session"]

BRANCHES = [10, 11]
WSNAMES = [20, 21]
TAGS = [30]
NAMES = BRANCHES + WSNAMES + TAGS
NVALS = 3


def gen_world(rng):
    commits = [{"id": i, "parents": [], "val": i} for i in (1, 2, 3)]   # root specs, one per value
    keys = {(c["val"], tuple(c["parents"])) for c in commits}
    nid = 4
    while nid <= 8:
        np_ = 1 if rng.random() < 0.75 else 2
        ps = rng.sample(range(1, nid), min(np_, nid - 1))
        v = rng.randint(1, NVALS)
        if (v, tuple(ps)) in keys:
            continue
        keys.add((v, tuple(ps)))
        commits.append({"id": nid, "parents": ps, "val": v})
        nid += 1
    ws = []
    k = 101
    for a in range(1, NVALS + 1):
        for b in range(1, NVALS + 1):
            ws.append({"id": k, "working": a, "staged": b})
            k += 1
    return commits, ws


def ws_id(working, staged):
    return 101 + (working - 1) * NVALS + (staged - 1)


def gen_m0(rng, commits):
    m0 = []
    val = {c["id"]: c["val"] for c in commits}
    for b in BRANCHES:
        if b == 10 or rng.random() < 0.6:
            h = rng.randint(1, len(commits))
            m0.append([b, h])
            if rng.random() < 0.85:
                v = val[h]
                if rng.random() < 0.7:
                    m0.append([b + 10, ws_id(v, v)])
                else:
                    m0.append([b + 10, ws_id(rng.randint(1, NVALS), rng.randint(1, NVALS))])
    m0.sort()
    return m0


def gen_op(rng, c, commits):
    children = {}
    for cm in commits:
        for p in cm["parents"]:
            children.setdefault(p, []).append(cm["id"])
    k = rng.random()
    r = rng.choice(BRANCHES) if rng.random() < 0.3 else 10
    w = r + 10
    ncm = len(commits)
    if k < 0.22:
        return {"k": "commit", "c": c, "r": r, "new": rng.choice([1, 2, 3]) if rng.random() < 0.55 else rng.randint(1, ncm), "force": rng.random() < 0.12}
    if k < 0.34:
        return {"k": "ff", "c": c, "r": r, "new": rng.randint(1, ncm)}
    if k < 0.44:
        return {"k": "sethead", "c": c, "r": r, "new": rng.randint(1, ncm)}
    if k < 0.56:
        return {"k": "delete", "c": c, "r": r, "w": w if rng.random() < 0.6 else 0}
    if k < 0.72:
        return {"k": "updws", "c": c, "w": w, "newws": rng.randint(101, 100 + NVALS * NVALS)}
    if k < 0.94:
        v = rng.choice([1, 2, 3])
        return {"k": "commitws", "c": c, "r": r, "w": w, "new": v if rng.random() < 0.7 else rng.randint(1, ncm),
                "newws": ws_id(v, v) if rng.random() < 0.7 else rng.randint(101, 100 + NVALS * NVALS), "force": rng.random() < 0.08}
    return {"k": "tag", "c": c, "r": 30, "new": rng.randint(1, ncm)}


def gen_case(rng, conc, store):
    commits, ws = gen_world(rng)
    m0 = gen_m0(rng, commits)
    n = rng.randint(2, 4) if conc else rng.randint(2, 3)
    acts = []
    if conc:
        for c in range(n):
            a = gen_op(rng, c, commits)
            if rng.random() < 0.6:       # contend on branch 10 / its working set
                if "r" in a and a["k"] != "tag":
                    a["r"] = 10
                if a.get("w"):
                    a["w"] = 20
            acts.append(a)
    else:
        for _ in range(rng.randint(4, 12)):
            c = rng.randrange(n)
            k = rng.random()
            if k < 0.10:
                acts.append({"k": "rebase", "c": c})
            elif k < 0.32:
                acts.append({"k": "get", "c": c, "r": rng.choice(NAMES)})
            else:
                if rng.random() < 0.45:   # fresh handles for this call (as the doltdb layer does)
                    if rng.random() < 0.5:
                        acts.append({"k": "rebase", "c": c})
                    for nm in NAMES:
                        acts.append({"k": "get", "c": c, "r": nm})
                acts.append(gen_op(rng, c, commits))
    return {"conc": conc, "store": store, "nclients": n, "values": NVALS, "commits": commits, "ws": ws, "m0": m0, "names": NAMES, "acts": acts}


KNOWN_KEY = "nbs-manifest-lock:identical-concurrent-update-both-succeed"
WITNESS = {"conc": True, "store": "nbs", "nclients": 2, "values": NVALS,
           "commits": [{"id": 1, "parents": [], "val": 1}, {"id": 2, "parents": [], "val": 2}, {"id": 3, "parents": [], "val": 3}],
           "ws": [{"id": 101 + (a - 1) * NVALS + (b - 1), "working": a, "staged": b} for a in range(1, NVALS + 1) for b in range(1, NVALS + 1)],
           "m0": [[10, 1]], "names": NAMES,
           "acts": [{"k": "updws", "c": 0, "w": 21, "newws": 104}, {"k": "updws", "c": 1, "w": 21, "newws": 104}]}


def _opkey(a):
    return (a["k"], a.get("r"), a.get("w"), a.get("new"), a.get("newws"), a.get("force", False))


def has_identical_calls(case):
    if case.get("sql") or case.get("ddb"):
        return False
    ks = [_opkey(a) for a in case["acts"] if a["k"] not in ("rebase", "get")]
    return len(set(ks)) < len(ks)


def known_open(pid):
    from lib import vlib
    return any(f.get("key") == KNOWN_KEY and str(f.get("status", "")).startswith("open") for f in vlib.load_known(pid))


def match_known(finding, case, out):
    """Two concurrent calls with byte-identical effect on an NBS store both report success (the loser's manifest
    contents equal the winner's, so its lock hash equals the upstream lock and updateManifest takes it for a win)."""
    o = out.get("obs") or {}
    if finding.get("key") != KNOWN_KEY or case.get("store") != "nbs" or not case.get("conc"):
        return False
    ops = [a for a in case["acts"] if a["k"] not in ("rebase", "get")]
    oks = [_opkey(a) for a, x in zip(ops, o.get("ops") or []) if x["res"] == "ok"]
    return len(set(oks)) < len(oks)


def gen_nbs_case(rng, conc, gen=None):
    while True:
        c = (gen or gen_case)(rng, conc, "nbs")
        if not (conc and has_identical_calls(c)):      # see ASSUMPTIONS / KNOWN_KEY
            return c


SQL_BRANCHES = [10, 11, 12]


def gen_sql_case(rng, conc):
    n = rng.randint(2, 4) if conc else rng.randint(2, 3)

    def op(s):
        k = rng.random()
        if k < 0.35:
            return {"k": "commit", "s": s}
        if k < 0.50:
            return {"k": "branchf", "s": s, "name": rng.choice([10, 11]), "target": rng.randint(1, 3)}
        if k < 0.62:
            return {"k": "reset", "s": s, "target": rng.randint(1, 3)}
        if k < 0.72:
            return {"k": "delete", "s": s, "name": rng.choice([11, 12])}
        if k < 0.84:
            return {"k": "create", "s": s, "name": rng.choice([11, 12]), "target": rng.randint(1, 3)}
        if k < 0.92:
            return {"k": "checkoutb", "s": s, "name": 12, "target": rng.randint(1, 3)}
        return {"k": "tag", "s": s, "name": 31, "target": rng.randint(1, 3)}

    acts = []
    if conc:
        acts = [op(s) for s in range(n)]
    else:
        for _ in range(rng.randint(5, 10)):
            s = rng.randrange(n)
            k = rng.random()
            if k < 0.15:
                acts.append({"k": "begin", "s": s})
            elif k < 0.22:
                acts.append({"k": rng.choice(["txcommit", "rollback"]), "s": s})
            else:
                acts.append(op(s))
    return {"sql": True, "conc": conc, "nsessions": n, "acts": acts, "store": "sql"}


def gen_cases(rng, tier):
    nseq, nconc, nnbs = (260, 110, 14) if tier == "quick" else (6000, 3000, 300)
    cases = []
    for _ in range(nseq):
        cases.append(gen_case(rng, False, "mem"))
    for _ in range(nconc):
        cases.append(gen_case(rng, True, "mem"))
    for i in range(nnbs):
        cases.append(gen_nbs_case(rng, i % 2 == 1))
    nsql = 24 if tier == "quick" else 600
    for i in range(nsql):
        cases.append(gen_sql_case(rng, i % 2 == 1))
    if known_open(ID):
        cases.append(WITNESS)
    return cases


RES = {"ok": "ROk", "merge": "RMergeNeeded", "already": "RAlready", "lock": "RLockFailed", "dirty": "RDirty", "exists": "RExists", "other": "ROther"}


def coq_op(a, o):
    k = a["k"]
    f = cq_bool(a.get("force", False))
    if k == "commit":
        return "(OCommit %d %d %d %s)" % (a["r"], o["exp"], o["new"], f)
    if k == "ff":
        return "(OFastForward %d %d %d)" % (a["r"], o["exp"], o["new"])
    if k == "sethead":
        return "(OSetHead %d %d)" % (a["r"], o["new"])
    if k == "delete":
        return "(ODelete %d %d)" % (a["r"], a.get("w", 0))
    if k == "updws":
        return "(OUpdateWS %d %d %d)" % (a["w"], o["prev"], o["newws"])
    if k == "commitws":
        return "(OCommitWS %d %d %d %d %d %d %s)" % (a["r"], a["w"], o["exp"], o["prev"], o["new"], o["newws"], f)
    if k == "tag":
        return "(OTag %d %d)" % (a["r"], o["new"])
    raise ValueError(k)


def coq_refs(l):
    return cq_list("(%d, %d)" % (a, b) for a, b in l)


def coq_world(case, obs):
    cms = list(case["commits"]) + list((obs or {}).get("extra") or [])
    par = cq_list("(%d, %s)" % (c["id"], cq_list(str(p) for p in c["parents"])) for c in cms)
    root = cq_list("(%d, %d)" % (c["id"], c["val"]) for c in cms)
    ws = cq_list("(%d, (%d, %d))" % (s["id"], s["working"], s["staged"]) for s in case["ws"])
    return "{| w_parents := %s; w_root := %s; w_ws := %s |}" % (par, root, ws)


def coq_input(case, obs):
    acts = []
    j = 0
    ops = (obs or {}).get("ops") or []
    for a in case["acts"]:
        if a["k"] == "rebase":
            acts.append("ARebase %d" % a["c"])
        elif a["k"] == "get":
            continue
        else:
            o = ops[j] if j < len(ops) else {"exp": 0, "prev": 0, "new": 0, "newws": 0}
            j += 1
            acts.append("AOp %d %s" % (a["c"], coq_op(a, o)))
    return "{| i_world := %s; i_m0 := %s; i_conc := %s; i_acts := %s |}" % (
        coq_world(case, obs), coq_refs(case["m0"]), cq_bool(case["conc"]), cq_list(acts))


SQL_MODEL_KINDS = ("commit", "branchf", "reset", "delete", "create", "checkoutb", "tag")


def coq_case_sql(case, out):
    """SQL-level history: only the calls that succeeded are operations of the history (a failed statement must
    have no effect: the final heads must be explained by the successful ones); every statement starts from the
    current root (ARebase before each call)."""
    o = out.get("obs")
    if o is None or out.get("err") or out.get("panic"):
        return "({| i_world := {| w_parents := []; w_root := []; w_ws := [] |}; i_m0 := []; i_conc := true; i_acts := [] |}, {| o_results := [ROther]; o_final := [(0, 0)] |})"
    cms = [{"id": 1, "parents": []}, {"id": 2, "parents": [1]}, {"id": 3, "parents": [2]}] + list(o.get("extra") or [])
    par = cq_list("(%d, %s)" % (c["id"], cq_list(str(p) for p in c["parents"])) for c in cms)
    acts = []
    for x in o["ops"]:
        if not x["ok"] or x["k"] not in SQL_MODEL_KINDS:
            continue
        k = x["k"]
        if k == "commit":
            t = "(OCommit %d %d %d false)" % (x["name"], x["exp"], x["new"])
        elif k in ("branchf", "reset"):
            t = "(OSetHead %d %d)" % (x["name"], x["new"])
        elif k == "delete":
            t = "(ODelete %d 0)" % x["name"]
        else:
            t = "(OTag %d %d)" % (x["name"], x["new"])
        if not case["conc"]:
            acts.append("ARebase %d" % x["s"])
        acts.append("AOp %d %s" % (x["s"], t))
    nops = sum(1 for a in acts if a.startswith("AOp"))
    inp = "{| i_world := {| w_parents := %s; w_root := []; w_ws := [] |}; i_m0 := %s; i_conc := %s; i_acts := %s |}" % (
        par, coq_refs(o["m0"]), cq_bool(case["conc"]), cq_list(acts))
    return "(%s, {| o_results := %s; o_final := %s |})" % (inp, cq_list(["ROk"] * nops), coq_refs(o["final"]))


def classify_sql(case, out):
    o = out.get("obs")
    if o is None or out.get("err") or out.get("panic"):
        return ["harness-error"]
    t = ["sql-conc" if case["conc"] else "sql-seq"]
    began = set()
    for x in o["ops"]:
        if x["k"] == "begin":
            began.add(x["s"])
        elif x["k"] in ("txcommit", "rollback"):
            began.discard(x["s"])
        elif x["ok"]:
            t.append("sql-%s-ok" % x["k"])
            if x["s"] in began:
                t.append("sql-stale-session")
        else:
            t.append("sql-fail")
    return sorted(set(t))


def coq_case(case, out):
    if case.get("sql"):
        return coq_case_sql(case, out)
    o = out.get("obs")
    if o is None or out.get("err") or out.get("panic"):
        # harness error / panic: an observation no model agrees with and no oracle accepts
        return "(%s, {| o_results := [ROther; ROther; ROther; ROther; ROther; ROther; ROther; ROther; ROther; ROther; ROther; ROther; ROther; ROther]; o_final := [(0, 0)] |})" % coq_input(case, None)
    res = cq_list(RES[x["res"]] for x in o["ops"])
    return "(%s, {| o_results := %s; o_final := %s |})" % (coq_input(case, o), res, coq_refs(o["final"]))


def classify(case, out):
    if case.get("sql"):
        return classify_sql(case, out)
    o = out.get("obs")
    if o is None or out.get("err") or out.get("panic"):
        return ["harness-error"]
    t = ["conc" if case["conc"] else "seq"]
    if case["store"] == "nbs":
        t.append("nbs")
    ops = [a for a in case["acts"] if a["k"] not in ("rebase", "get")]
    stale = {}       # client -> another client's update landed since its last rebase / own success
    j = 0
    for a in case["acts"]:
        c = a["c"]
        if a["k"] == "rebase":
            stale[c] = False
            continue
        if a["k"] == "get":
            continue
        r = o["ops"][j]
        j += 1
        t.append(r["res"])
        if r["res"] == "ok":
            t.append(a["k"] + "-ok")
            if a.get("force") or a["k"] == "sethead":
                t.append("forced")
            if not case["conc"]:
                if stale.get(c):
                    t.append("retry-path")
                for c2 in range(case["nclients"]):
                    if c2 != c:
                        stale[c2] = True
                stale[c] = False
        elif not case["conc"] and stale.get(c):
            t.append("stale-fail")
    if case["conc"]:
        names = [(a.get("r"), a.get("w")) for a in ops]
        if len(set(n[0] for n in names if n[0])) < len([n for n in names if n[0]]):
            t.append("conc-contended")
    if o.get("extra"):
        t.append("built-new-commit")
    return sorted(set(t))


def nontrivial(case, out):
    o = out.get("obs")
    if case.get("sql"):
        return bool(o) and any(x["ok"] and x["k"] in SQL_MODEL_KINDS for x in o["ops"])
    return bool(o) and any(x["res"] == "ok" for x in o["ops"])


def shrink_candidates(case):
    acts = case["acts"]
    for i in range(len(acts)):
        c = dict(case)
        c["acts"] = acts[:i] + acts[i + 1:]
        if c["acts"]:
            yield c


def neighbours(case, rng):
    if case.get("sql"):
        return [gen_sql_case(rng, case["conc"]) for _ in range(10)]
    out = []
    for _ in range(40):
        c = dict(case)
        acts = list(case["acts"])
        i = rng.randrange(len(acts) + 1)
        acts.insert(i, gen_op(rng, rng.randrange(case["nclients"]), case["commits"]))
        c["acts"] = acts if not case["conc"] else case["acts"]
        out.append(c)
    return out


def search_cases(rng):
    return [gen_case(rng, i % 3 == 0, "mem") for i in range(150)]
