"""C01 — Chunk reads return exactly the bytes stored under that address."""
import hashlib

from lib import vlib
from lib.vlib import cq_bytes, cq_bool, cq_list

ID = "C01"
HARNESS_PKG = "c01"
HARNESS_RUNNER = "c01"
COQ_TARGETS = ["theories/C01/Corr.vo"]
COQ_CORR_MODULE = "Base.Str C01.Model C01.Spec C01.Corr"
COQ_CASE_TYPE = "C01.Corr.case"
COQ_CHECK = "C01.Corr.check_case"
COQ_MODEL_OBS = "(fun c => C01.Corr.model_obs (fst c))"
COQ_SHARD = 80
DESIGN_REF = "§5 C01"
TECHNIQUE = ("Coq proof: table-index lookup / hasMany / findOffsets / get over every prefix-sorted index (equal 8-byte prefixes inside the "
             "statements), tableSet search over any source order; regenerated format constants and offset functions; executable byte-level "
             "table + store model compared inside Coq with real NomsBlockStore histories (colliding prefixes), map oracle on every observation")
LEVEL_TEXT = ("Proof (F/M): (1) for every record list (equal 8-byte prefixes allowed) and every prefix-sorted outcome of the unstable index sort, the "
              "written bytes parse back to the index (parse_write_table, byte level: footer, the three index regions, uint32/uint64 bounds in the "
              "statement), lookup returns exactly the record's (offset,length) or nothing, hasMany/findOffsets mark exactly the present requests with "
              "exact `remaining` (carried filterIdx, early exit), get returns the stored bytes (CRC checked) iff stored, iterateAllChunks returns "
              "exactly the stored chunks; (2) store_refines_map: for EVERY operation history (content-addressed puts, batched reads over sets) in "
              "every configuration (single store; old/new generations incl. nil ghost store as fixed) and every memtable size, every Get / Has / "
              "GetMany / GetManyCompressed / HasMany / IterateAllChunks answer of the store state machine (memtable, auto-flush when full, flush "
              "with has-filter against novel+upstream, novel then upstream in any order, old then new generation) equals the abstract map of "
              "accepted puts, which changes only by accepted puts; corollary reads_agree. The executable model is tied to the code by running "
              "real NomsBlockStore histories and comparing inside Coq; the map oracle is also evaluated on every implementation observation.")
LEVEL_NOTE = ("Trusted: Coq kernel, translator (constants, indexSize/lengthsOffset/suffixesOffset), Go harness + Python glue. Hypotheses visible in "
              "the theorems: content addressing (an address determines the bytes), addresses are 8+12 bytes, memsz + 4 < 2^32 (record lengths fit "
              "uint32), checksum < 2^32, decompress(compress d) = d, compress of non-empty is non-empty; the table/tableSet/store lemmas are generic in "
              "crc/compress/decompress, the final induction over histories is for the instance the correspondence runs (identity compressor, constant "
              "checksum). Modelled, not verified: Go maps for novel/upstream sources (lists, any order), sort.Sort instability (any prefix-sorted "
              "permutation), read batching arithmetic is proved (batches_cover, hand-modelled canReadAhead/groupSpans), mmap / quota are not modelled, journal and archive sources inside a store (archive index search "
              "is C06's prolly_bin_search_spec), GC keeper callbacks, concurrency.")
THEOREMS = ["store_refines_map", "reads_agree", "parse_write_table", "lookup_parsed_written_table", "lookup_write_index", "lookup_any",
            "has_many_spec", "find_offsets_spec", "table_get_written", "table_has_written", "tableset_has_many_spec", "tbl_iterate",
            "store_put_spec", "store_flush_spec", "batches_cover", "sort_tuples_valid", "layout_pinned"]
RULE = ("histories of 8-45 operations over address pools built to collide (2-5 prefix groups of 1-5 addresses sharing all 8 prefix bytes, adjacent "
        "prefixes +-1, absent probes inside present prefix runs, suffixes differing in one byte), memtable sizes from 8 bytes (flush on almost every "
        "put) to 1 MiB, three configurations; non-trivial = at least one put accepted and one read; distinct by full history")
ASSUMPTIONS = ["an address determines the chunk bytes within a history (content addressing); distinct addresses of a history have distinct 12-byte suffixes "
               "(table files are named by the hash of their suffix block, so equal suffix blocks would collide file names - a 96-bit SHA-512 collision in real use)",
               "single process, no GC in progress, chunks carry no child references (the dangling-reference check is C07)"]
REQUIRED_TAGS = ["cfg-blobstore", "cfg-local", "cfg-generational", "cfg-generational-nil-ghost", "prefix-collision", "absent-probe-in-present-prefix", "auto-flush", "explicit-flush",
                 "read-from-table", "hasmany-mixed", "getmany-mixed", "iterate", "reput-after-flush", "run>=3"]


def _ps(a):
    """20 address bytes -> (prefix, suffix) numbers."""
    return int.from_bytes(bytes(a[:8]), "big"), int.from_bytes(bytes(a[8:20]), "big")


def cq_addr(a):
    p, s = _ps(a)
    return "(%d, %d)" % (p, s)


def make_pool(rng):
    """addresses grouped by prefix, with content; some never put (absent probes)."""
    pool = []          # (addr bytes list, data list, putable)
    suffixes = set()
    ngroups = rng.randint(2, 5)
    base = [rng.randrange(256) for _ in range(8)]
    prefixes = []
    for g in range(ngroups):
        k = rng.random()
        if prefixes and k < 0.45:
            # adjacent prefix: +-1 as a big-endian number
            v = int.from_bytes(bytes(rng.choice(prefixes)), "big") + rng.choice([-1, 1])
            v = max(0, min(v, 2 ** 64 - 1))
            p = list(v.to_bytes(8, "big"))
        elif k < 0.55:
            p = rng.choice([[0] * 8, [255] * 8, [0] * 7 + [1], [255] * 7 + [254]])
        else:
            p = list(base)
            p[rng.randrange(8)] = rng.randrange(256)
        if p in prefixes:
            continue
        prefixes.append(p)
    sbase = [rng.randrange(256) for _ in range(12)]
    for p in prefixes:
        n = rng.choice([1, 1, 2, 2, 3, 4, 5])
        for i in range(n):
            for _ in range(20):
                s = list(sbase)
                if rng.random() < 0.7:
                    s[rng.choice([0, 5, 11])] = rng.randrange(256)
                else:
                    s = [rng.randrange(256) for _ in range(12)]
                if tuple(s) not in suffixes:
                    break
            else:
                continue
            suffixes.add(tuple(s))
            ln = rng.choice([1, 1, 2, 3, 5, 8, 12, 20, 24])
            data = [rng.randrange(256) for _ in range(ln)] if rng.random() < 0.7 else [rng.choice([0, 65])] * ln
            pool.append((p + s, data, rng.random() < 0.75))
    # one real content address
    d = [rng.randrange(256) for _ in range(rng.randint(1, 16))]
    a = list(hashlib.sha512(bytes(d)).digest()[:20])
    if tuple(a[8:]) not in suffixes:
        pool.append((a, d, True))
    # a probe with a prefix beyond / before everything
    for p in ([255] * 8, [0] * 8):
        s = [rng.randrange(256) for _ in range(12)]
        if tuple(s) not in suffixes and rng.random() < 0.5:
            suffixes.add(tuple(s))
            pool.append((p + s, [7], False))
    return pool


def gen_one(rng, tier):
    pool = make_pool(rng)
    cfg = rng.choice([0, 1, 1, 2, 2, 2, 3])
    memsz = rng.choice([8, 12, 24, 30, 48, 64, 100, 1 << 20, 1 << 20])
    nops = rng.randint(8, 32 if tier == "quick" else 80)
    putable = [x for x in pool if x[2]] or pool[:1]
    ops = []
    addrs = [x[0] for x in pool]

    def subset():
        k = rng.randint(1, min(len(addrs), 8))
        return [list(a) for a in rng.sample(addrs, k)]

    for _ in range(nops):
        k = rng.random()
        if k < 0.36:
            a, d, _ = rng.choice(putable)
            if rng.random() < 0.015:
                d = []
            kind = "putold" if (cfg >= 2 and rng.random() < 0.35) else "put"
            ops.append({"k": kind, "a": list(a), "d": list(d)})
        elif k < 0.45:
            ops.append({"k": "flushold" if (cfg >= 2 and rng.random() < 0.4) else "flush"})
        elif k < 0.60:
            ops.append({"k": "get", "a": list(rng.choice(addrs))})
        elif k < 0.68:
            ops.append({"k": "has", "a": list(rng.choice(addrs))})
        elif k < 0.78:
            ops.append({"k": "getmany", "l": subset()})
        elif k < 0.83:
            ops.append({"k": "getmanyc", "l": subset()})
        elif k < 0.95:
            ops.append({"k": "hasmany", "l": subset()})
        else:
            ops.append({"k": "iter"})
    return {"cfg": cfg, "memsz": memsz, "ops": ops}


# Regression case: GenerationalNBS.HasMany with ghostGen == nil used to report nothing absent (found by this check,
# fixed in dolt commit 16416a3).  Always run; the oracle flags it again if the defect returns.
REGRESSION_NIL_GHOST = {"cfg": 3, "memsz": 1 << 20, "ops": [
    {"k": "has", "a": [1] * 20}, {"k": "get", "a": [1] * 20}, {"k": "hasmany", "l": [[1] * 20, [2] * 20]}]}


def gen_cases(rng, tier):
    n = 150 if tier == "quick" else 1200   # thorough sized for ≈ 30 min (Coq evaluation dominates)
    return [REGRESSION_NIL_GHOST] + [gen_one(rng, tier) for _ in range(n)]


def _op(o):
    k = o["k"]
    if k in ("put", "putold"):
        return "%s %s %s" % ("OpPut" if k == "put" else "OpPutOld", cq_addr(o["a"]), cq_bytes(o["d"]))
    if k == "flush":
        return "OpFlush"
    if k == "flushold":
        return "OpFlushOld"
    if k == "get":
        return "OpGet %s" % cq_addr(o["a"])
    if k == "has":
        return "OpHas %s" % cq_addr(o["a"])
    if k == "iter":
        return "OpIter"
    name = {"getmany": "OpGetMany", "getmanyc": "OpGetManyC", "hasmany": "OpHasMany"}[k]
    return "%s %s" % (name, cq_list(cq_addr(a) for a in o["l"]))


def _ob(b):
    k = b["k"]
    if k == "put":
        return "ObPut %d" % b.get("code", 0)
    if k == "flush":
        return "ObFlush %s" % cq_bool(b.get("ok", False))
    if k == "data":
        return "ObData (Some %s)" % cq_bytes(b.get("d") or []) if b.get("some") else "ObData None"
    if k == "bool":
        return "ObBool %s" % cq_bool(b.get("b", False))
    if k == "chunks":
        return "ObChunks %s" % cq_list("(%s, %s)" % (cq_addr(c["a"]), cq_bytes(c["d"] or [])) for c in (b.get("chunks") or []))
    if k == "addrs":
        return "ObAddrs %s" % cq_list(cq_addr(a) for a in (b.get("addrs") or []))
    return "ObErr 9"


def coq_case(case, out):
    obs = out.get("obs")
    cfg = {0: 0, 1: 0, 2: 1, 3: 2}[case["cfg"]]
    inp = "(%d, %d, %s)" % (cfg, case["memsz"], cq_list(_op(o) for o in case["ops"]))
    if obs is None:
        return "(%s, [ObErr 99])" % inp
    return "(%s, %s)" % (inp, cq_list(_ob(b) for b in obs))


def classify(case, out):
    obs = out.get("obs")
    if obs is None:
        return ["panic-or-error"]
    t = [["cfg-blobstore", "cfg-local", "cfg-generational", "cfg-generational-nil-ghost"][case["cfg"]]]
    put = {}          # addr tuple -> True once accepted
    flushed = set()
    pending = set()
    total = 0
    for o, b in zip(case["ops"], obs):
        k = o["k"]
        if k in ("put", "putold"):
            a = tuple(o["a"])
            if not o["d"]:
                t.append("empty-put")
            if b.get("code", 0) == 0 and b["k"] == "put":
                if a in flushed and a not in pending:
                    t.append("reput-after-flush")
                put[a] = True
                pending.add(a)
                total += len(o["d"])
                if total > case["memsz"]:
                    t.append("auto-flush")
                    total = len(o["d"])
            elif b.get("code", 0) == 1:
                t.append("put-error")
        elif k in ("flush", "flushold"):
            t.append("explicit-flush")
            flushed |= pending
            pending = set()
            total = 0
        elif k in ("get", "has"):
            a = tuple(o["a"])
            if a in put and a in flushed:
                t.append("read-from-table")
            if a not in put and any(p[:8] == a[:8] for p in put):
                t.append("absent-probe-in-present-prefix")
        elif k in ("getmany", "getmanyc"):
            n = len(b.get("chunks") or [])
            if 0 < n < len(o["l"]):
                t.append("getmany-mixed")
        elif k == "hasmany":
            n = len(b.get("addrs") or [])
            if 0 < n < len(o["l"]):
                t.append("hasmany-mixed")
            if any(tuple(a) not in put and any(p[:8] == tuple(a)[:8] for p in put) for a in o["l"]):
                t.append("absent-probe-in-present-prefix")
        elif k == "iter":
            t.append("iterate")
        if b["k"] == "err":
            t.append("read-error")
    runs = {}
    for a in put:
        runs[a[:8]] = runs.get(a[:8], 0) + 1
    if any(v >= 2 for v in runs.values()):
        t.append("prefix-collision")
    if any(v >= 3 for v in runs.values()):
        t.append("run>=3")
    return sorted(set(t))


def nontrivial(case, out):
    obs = out.get("obs") or []
    return any(b["k"] == "put" and b.get("code", 0) == 0 for b in obs) and any(b["k"] in ("data", "bool", "chunks", "addrs") for b in obs)


def shrink_candidates(case):
    ops = case["ops"]
    for i in range(len(ops)):
        yield dict(case, ops=ops[:i] + ops[i + 1:])
    if case["memsz"] != 1 << 20:
        yield dict(case, memsz=1 << 20)


def neighbours(case, rng):
    """permute insertion order inside the history, move probes across run boundaries (suffix +-1, prefix +-1), change flush points."""
    out = []
    ops = case["ops"]
    puts = [i for i, o in enumerate(ops) if o["k"] in ("put", "putold")]
    for _ in range(40):
        if len(puts) >= 2:
            i, j = rng.sample(puts, 2)
            n = list(ops)
            n[i], n[j] = n[j], n[i]
            out.append(dict(case, ops=n))
    for i, o in enumerate(ops):
        if o["k"] in ("get", "has"):
            for delta in (-1, 1):
                for pos in (7, 19):
                    a = list(o["a"])
                    a[pos] = (a[pos] + delta) % 256
                    n = list(ops)
                    n[i] = dict(o, a=a)
                    out.append(dict(case, ops=n))
    for ms in (8, 24, 64, 1 << 20):
        out.append(dict(case, memsz=ms))
    for i in range(len(ops) + 1):
        out.append(dict(case, ops=ops[:i] + [{"k": "flush"}] + ops[i:]))
    # keep histories consistent: a neighbour that moves a probe never changes put data
    rng.shuffle(out)
    return out


def search_cases(rng):
    return [gen_one(rng, "quick") for _ in range(150)]
