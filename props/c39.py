"""C39 — The remote server's sealed URLs cannot be forged or escape its root."""
from lib import vlib
from lib.vlib import cq_bytes, cq_bool, cq_list, cq_Z

ID = "C39"
HARNESS_PKG = "c39"
HARNESS_RUNNER = "c39"
COQ_TARGETS = ["theories/C39/Corr.vo"]
COQ_CORR_MODULE = "Base.Str C39.Model C39.Spec C39.Corr"
COQ_CASE_TYPE = "C39.Corr.case"
COQ_CHECK = "C39.Corr.check_case"
COQ_MODEL_OBS = "(fun c => C39.Corr.model_obs (fst c))"
DESIGN_REF = "§5 C39, §6 F4"
TECHNIQUE = ("Coq proof over an ideal-AEAD Section pair (seal/unseal round trip, forgery/tamper/window rejection for every request) + "
             "byte-level model of filepath.Clean/Join and the GET and POST/PUT path handling proved confined against POSIX path resolution "
             "(POST/PUT: refuted for the code as it is, proved for the guarded variant) + in-Coq correspondence against the real sealer and the real "
             "filehandler over a sandbox tree")
LEVEL_TEXT = ("Proof (P): unseal_seal, tamper_rejected/unseal_sound/window_enforced are proved for every request under the ideal-AEAD hypotheses "
              "(visible in the statements); get_confined is proved for every path string; post_confined is REFUTED for the faithful model of the unguarded "
              "POST/PUT branch (witness /../x/<hash>, F4) and proved for the branch with the GET guard applied (which of the two the tree implements is read off a canary request). Partial: AES-GCM, net/url String/Parse, "
              "base64 and the OS are modelled, not verified; symbolic links are outside the lexical confinement statement. The gRPC service layer (getRepoPath -> getOrCreateStore -> "
              "DBCache.Get) is modelled: confinement is REFUTED for the code as it is (repo_path '../x', absolute paths, repo_id.org '..') and proved for the validated variant; "
              "oracle_on_model_confinement is proved for the guarded handler and service.")
LEVEL_NOTE = ("Trusted: Coq kernel, translator (ArchiveFileSuffix, hash.StringLen), Go harness + Python glue. Hypotheses in the statements: aead_ideal "
              "(open k n c a = Some p <-> c = seal k n p a) and aead_binds (a ciphertext determines its nonce and associated data). Modelled, not verified: "
              "AES-256-GCM, base64.RawURLEncoding (fields are modelled after decoding: its padding-bit and newline malleability yields the same bytes and "
              "the same request), url.Values parsing, URL.String/url.Parse (escape, './' guard, fragment cut, control bytes; scheme detection omitted), "
              "time.Now at millisecond resolution, os.Stat/MkdirAll (NUL and NAME_MAX only), NBS store creation (observed: only the table file appears).")
THEOREMS = ["unseal_seal_residual_refuted", "grpc_confined", "oracle_on_model_confinement", "unseal_seal", "unseal_sound", "tamper_rejected", "forged_payload_rejected", "window_enforced", "get_confined", "post_confined_guarded",
            "post_confined_refuted", "parse_fmt_int"]
REFUTED = ["post_confined for the POST/PUT branch as it was before the fix (no clean-and-reject; F4): post_confined_refuted — the guarded branch is proved by post_confined_guarded", "unseal_seal for a relative path with ':' in its first segment and for a path beginning with exactly '//': unseal_seal_residual_refuted (open; "
           "paths that need percent-encoding round-trip since f75d72f: unseal_seal is proved for every byte-string path outside these two classes)"]
RULE = ("seal cases: URL paths (plain repo/hash paths, dot segments, doubled slashes, bytes that need percent-encoding, literal %2f, first-segment colon) x "
        "url-encoded queries x one mutation of the sealed URL (none, path, req dropped/garbled/bit-flipped/swapped with another sealed URL's, nonce "
        "changed/short/long/not base64, nbf/exp shifted/reformatted/dropped, window forged before/after now); handle cases: request paths built from "
        "segments .. . '' %2e%2e \\ NUL 300-byte names, repo paths 1-3 deep, valid/invalid table-file names, methods GET/POST/PUT/DELETE, through the "
        "identity sealer, the real sealer, and a raw percent-encoded request target; non-trivial = a seal case with a mutation or a non-plain path, a "
        "handle case whose path has a dot/odd segment or that reaches the file system")
ASSUMPTIONS = ["RawQuery of sealed URLs is a well-formed query string (no '#', no control bytes), as url.Values.Encode produces",
               "lexical confinement: no symbolic links below the root (the model resolves paths as POSIX does without links)",
               "the DBCache is the standalone server's LocalCSCache (reproduced in the harness: package main cannot be imported)",
               "temporary files the NBS layer may create under os.TempDir are not counted as handler writes"]
REQUIRED_TAGS = ["reg-escaped-path-roundtrips", "double-slash-guard", "reg-grpc-escape-rejected", "reg-post-escape-rejected", "grpc-ok", "grpc-dotdot", "grpc-absolute", "grpc-repo-id", "seal-ok", "seal-rej-path", "seal-rej-open", "seal-rej-window", "seal-panic-nonce", "seal-nonplain", "get-200", "get-400", "get-404",
                 "post-200", "post-404", "post-dotdot", "mode-sealed", "mode-raw", "nul", "longname"]
COQ_SHARD = 600

H1 = b"0123456789abcdefghijklmnopqrstuv"
H2 = b"vutsrqponmlkjihgfedcba9876543210"
H3 = b"aaaaaaaaaaaaaaaabbbbbbbbbbbbbbbb"
HN = [b"00000000000000000000000000000001", b"0000000000000000000000000000000v", b"abcdefghijklmnopqrstuv0123456789"]  # never planted
HASHCH = b"0123456789abcdefghijklmnopqrstuv"
ROOT = b"r1/r2/r3/r4/root"
FILES = [ROOT + b"/org/repo/" + H1, ROOT + b"/org/repo/" + H2 + b".darc", ROOT + b"/solo/" + H3,
         b"r1/r2/r3/r4/out/" + H1, b"r1/r2/r3/r4/rootx/" + H1, b"r1/r2/r3/x/" + H1, b"r1/r2/r3/r4/x/" + H3]
DIRS = [ROOT + b"/org/empty"]
LONG = b"L" * 300


def _ctx():
    return {"root": list(ROOT), "files": [list(f) for f in FILES], "dirs": [list(d) for d in DIRS]}


# ---------------------------------------------------------------- generators
PLAIN_SEGS = [b"org", b"repo", b"dolthub", b"my-db", b"a.b", b"x_y~z", b"v1,2", b"a=b", b"u@h", b"..", b".", b"", b"a:b", b"$&+;"]
ODD_SEGS = [b"a b", b"%2f", b"a%2Fb", b"%2e%2e", b"\xc3\xa9", b"q?x", b"h#f", b"a\\b", b"[x]", b"50%", b"\"q\"", b"a\x00b", b"*", b"!('ok')"]
QUERIES = [b"", b"num_chunks=1&content_length=42", b"num_chunks=3&split_offset=0&content_length=1024&content_hash=q83vEjRWeJCrze8SNFZ4kA",
           b"a=b%20c&d=%2F..%2F", b"x", b"k=v&k=w&=&&", b"u=http://h/p?x:y", b"t=a+b"]


def gen_url(rng):
    k = rng.random()
    if k < 0.45:
        segs = [rng.choice(PLAIN_SEGS) for _ in range(rng.randint(1, 3))] + [rng.choice([H1, H2 + b".darc", HN[0], b"file"])]
    elif k < 0.8:
        segs = [rng.choice(PLAIN_SEGS + ODD_SEGS) for _ in range(rng.randint(1, 3))] + [rng.choice([H1, HN[1], b"f g"])]
    else:
        segs = [rng.choice(PLAIN_SEGS + ODD_SEGS) for _ in range(rng.randint(0, 2))]
    p = b"/".join(segs)
    if rng.random() < 0.4:
        p = b"/" + p
    if rng.random() < 0.03:
        p = b"*"
    return {"path": list(p), "query": list(rng.choice(QUERIES))}


def gen_seal(rng):
    u = gen_url(rng)
    k = rng.random()
    if k < 0.22:
        m = {"t": "none"}
    elif k < 0.36:
        # path tampering: other repo, dot segments appended, escaped variants, prefix damage
        p = bytes(u["path"])
        alt = rng.choice([b"other/repo/" + H1, p + b"/../x", p + b"x", p[:-1] if p else b"y", p.replace(b"org", b"0rg") if b"org" in p else p + b"/", b"/" + p])
        pre = b"/single_symmetric_key_sealed_request/"
        kind = rng.random()
        if kind < 0.7:
            newp = pre + alt
        elif kind < 0.8:
            newp = alt                               # prefix dropped
        elif kind < 0.9:
            newp = pre + _escape(_escape(p))         # what Unseal compares against for non-plain paths
        else:
            newp = pre + _escape(p)                  # identical to the sealed path: not a change
        m = {"t": "path", "p": list(newp)}
    elif k < 0.50:
        f = rng.choice([{"k": "absent"}, {"k": "bad"}, {"k": "flip", "off": rng.randrange(0, 64)}, {"k": "flip", "off": -1},
                        {"k": "val", "v": list(rng.randbytes(rng.randint(0, 40)))}])
        m = {"t": "req", "f": f}
    elif k < 0.58:
        m = {"t": "reqof", "u2": rng.choice([u, gen_url(rng), {"path": list(b"other/repo/" + H1), "query": u["query"]}])}
    elif k < 0.72:
        f = rng.choice([{"k": "absent"}, {"k": "bad"}, {"k": "val", "v": list(rng.randbytes(12))}, {"k": "val", "v": list(rng.randbytes(11))},
                        {"k": "val", "v": list(rng.randbytes(13))}, {"k": "val", "v": []}, {"k": "val", "v": list(rng.randbytes(16))}])
        m = {"t": "nonce", "f": f}
    elif k < 0.86:
        f = rng.choice([{"k": "absent"}, {"k": "rel", "off": rng.choice([1, -1, 60000, -60000, 3600000, -3600000])},
                        {"k": "rel", "off": 0, "pre": [43]}, {"k": "rel", "off": 0, "pre": [48]}, {"k": "rel", "off": 0, "suf": [32]},
                        {"k": "val", "v": list(b"")}, {"k": "val", "v": list(b"abc")}, {"k": "val", "v": list(b"99999999999999999999")},
                        {"k": "val", "v": list(b"-9223372036854775808")}, {"k": "val", "v": list(b"9223372036854775807")}, {"k": "val", "v": list(b"0")},
                        {"k": "val", "v": list(b"1_000")}, {"k": "val", "v": list(b"0x10")}])
        m = {"t": rng.choice(["nbf", "exp"]), "f": f}
    else:
        a, b = rng.choice([(-10000, 900000), (60000, 900000), (-900000, -60000), (-5000, 5000), (3600000, 7200000), (-7200000, -3600000), (5000, -5000)])
        m = {"t": "forge", "nbf_off": a, "exp_off": b}
    return {"kind": "seal", "u": u, "mut": m}


def _plain_byte(c):
    return (97 <= c <= 122) or (65 <= c <= 90) or (48 <= c <= 57) or c in b"-_.~$&+,/:;=@"


def _escape(p):
    if p == b"*":
        return p
    return b"".join(bytes([c]) if _plain_byte(c) else b"%%%02X" % c for c in p)


def _sealable(p):
    """paths the (repaired) sealer round-trips: everything except a relative path with ':' in its first segment and a path
    that begins with exactly two slashes"""
    if p.startswith(b"//") and not p.startswith(b"///"):
        return False
    return p.startswith(b"/") or b":" not in p.split(b"/")[0]


def _plain_path(p):
    if any(not _plain_byte(c) for c in p):
        return p == b"*"
    return _sealable(p)


DOTS = [b"..", b".", b""]
NAMES = [b"org", b"repo", b"x", b"solo", b"out", b"rootx", b"empty", b"new", b"%2e%2e", b"..\\", b"\\", b"...", b".. ", b"a..b"]


GUARD = b"tmp/c39-abs-guard"


def _guard_leading_slashes(p, mode):
    """A path with two or more leading slashes would be an absolute path for a server that trims only one of them:
    such paths always continue with the guard directory (the harness maps it to a per-process directory under /tmp and
    watches it) and carry no '..'; the raw-target mode gets a single slash."""
    rest = p.lstrip(b"/")
    n = len(p) - len(rest)
    if n < 2:
        return p
    if mode == 2 or LONG in rest or b"\x00" in rest:
        return b"/" + rest          # (names the OS refuses must stay the first new path component, see gen_handle)
    rest = b"/".join(s for s in rest.split(b"/") if s != b"..")
    return b"/" * n + GUARD + b"/" + rest


def gen_handle(rng):
    meth = rng.choice(["GET", "GET", "POST", "POST", "PUT", "DELETE"])
    mode = rng.choice([0, 0, 0, 1, 2])
    k = rng.random()
    lead = [rng.choice(DOTS) for _ in range(rng.choice([0, 0, 0, 1, 2, 3]))]
    special = None
    if k < 0.12:
        special = rng.choice([LONG, b"a\x00b"])
        body = [special] + [rng.choice(NAMES[:8]) for _ in range(rng.randint(0, 1))]
    elif k < 0.55:
        body = [rng.choice(NAMES[:8]) for _ in range(rng.randint(1, 3))]
        for _ in range(rng.choice([0, 0, 1, 1, 2])):
            body.insert(rng.randint(0, len(body)), rng.choice(DOTS))
    elif k < 0.75:
        body = rng.choice([[b"org", b"repo"], [b"solo"], [b"org", b"repo", b"..", b"repo"], [b"org", b".", b"repo", b""], [b"..", b"out"], [b"..", b"rootx"],
                           [b"..", b"..", b"x"], [b"org", b"..", b"..", b"x"], [b"..", b"x"], [b"org", b"repo", b"..", b"..", b"..", b"..", b"r4", b"root", b"org", b"repo"]])
    else:
        body = [rng.choice(NAMES) for _ in range(rng.randint(0, 3))]
        for _ in range(rng.choice([0, 1, 2])):
            body.insert(rng.randint(0, len(body)), rng.choice(DOTS))
    if meth == "GET":
        fn = rng.choice([H1, H1, H2 + b".darc", H3, H2, HN[0], H1 + b".darc", H1[:31], H1 + b"0", H1.upper(), H1 + b"\n", b"..", b".darc", b""])
    else:
        fn = rng.choice([HN[0], HN[1], HN[2] + b".darc", HN[0], HN[1], H1[:31], HN[0] + b"0", HN[0].upper(), b"..", HN[0] + b".darx", b""])
    segs = lead + body + [fn]
    while sum(1 for s in segs if s == b"..") > 4:
        segs.remove(b"..")
    p = b"/" * rng.choice([1, 1, 1, 2, 0]) + b"/".join(segs)
    p = _guard_leading_slashes(p, mode)
    if mode == 2:
        # raw request target: percent-encode some dots and separators; must start with '/'
        raw = b""
        for c in (p if p.startswith(b"/") else b"/" + p):
            if c == 0x2e and rng.random() < 0.5:
                raw += rng.choice([b"%2e", b"%2E"])
            elif c == 0x2f and raw and rng.random() < 0.15:
                raw += b"%2f"
            elif _plain_byte(c) and c != 0x3b:
                raw += bytes([c])
            else:
                raw += b"%%%02X" % c
        p = raw
    ro = meth in ("POST", "PUT") and rng.random() < 0.08 and b".." not in p and b"%2e" not in p.lower()
    if meth == "DELETE":
        p = b"/org/repo/" + H1 if b".." in p or b"%2e" in p.lower() else p
    c = {"kind": "handle", "mode": mode, "method": meth, "ro": ro, "qbad": meth in ("POST", "PUT") and rng.random() < 0.1, "path": list(p)}
    c.update(_ctx())
    return c


GRPC_METHODS = ["Root", "Rebase", "GetRepoMetadata", "GetUploadLocations"]
GNAMES = [b"org", b"repo", b"newrepo", b"x", b"out", b"rootx", b"empty", b"solo", b"a.b", b"..x", b"x..", b"%2e%2e", b"..\\"]


def gen_grpc(rng):
    k = rng.random()
    lead = [rng.choice(DOTS) for _ in range(rng.choice([0, 0, 1, 2, 3]))]
    use_id = False
    if k < 0.1:
        segs = lead + [rng.choice([LONG, b"a\x00b"])] + [rng.choice(GNAMES[:8]) for _ in range(rng.randint(0, 1))]
    elif k < 0.2:
        # absolute paths: inside the root, a sibling of it, elsewhere in the sandbox
        p = rng.choice([b"/SB/r1/r2/r3/r4/root/in/side", b"/SB/r1/r2/r3/r4/rootx/abs", b"/SB/r1/abs", b"/SB/r1/r2/r3/r4/root", b"/SB/r1/r2/r3/r4/root/org/new", b"/SB/abs/deep/er"])
        c = {"kind": "grpc", "gmethod": rng.choice(GRPC_METHODS), "path": list(p), "useid": False, "org": [], "rname": []}
        c.update(_ctx())
        return c
    else:
        segs = lead + [rng.choice(GNAMES) for _ in range(rng.randint(1, 3))]
        for _ in range(rng.choice([0, 0, 1, 2])):
            segs.insert(rng.randint(0, len(segs)), rng.choice(DOTS))
    while sum(1 for s_ in segs if s_ == b"..") > 4:
        segs.remove(b"..")
    p = b"/".join(segs)
    while p.startswith(b"/"):
        p = p[1:]
    if not p:
        p = b"."
    c = {"kind": "grpc", "gmethod": rng.choice(GRPC_METHODS), "path": list(p), "useid": False, "org": [], "rname": []}
    if rng.random() < 0.2 and len(segs) >= 2 and segs[0] and segs[-1] and b"\x00" not in p and LONG not in p:
        c["useid"] = True
        c["org"] = list(b"/".join(segs[:-1]))
        c["rname"] = list(segs[-1])
        if bytes(c["org"]).startswith(b"/") or not c["org"]:
            c["useid"] = False
    c.update(_ctx())
    return c


FIXED_GRPC = [("Root", b"org/repo"), ("Root", b"../x"), ("Rebase", b"../../esc/repo"), ("GetUploadLocations", b"../up"), ("GetRepoMetadata", b"/SB/r1/abs"), ("Root", b"org"),
              ("Root", b"a\x00b"), ("Root", b"./a//b/../c"), ("Root", b".."), ("Root", b"."), ("GetUploadLocations", b"org/../../rootx/z"), ("Root", b"/SB/r1/r2/r3/r4/root/inside")]

FIXED_HANDLE = [("POST", 0, b"/../x/" + HN[0]), ("PUT", 0, b"/../x/" + HN[0]), ("POST", 0, b"/../../../../esc/repo/" + HN[1]), ("POST", 0, b"/org/repo/" + HN[0]),
                ("POST", 0, b"/org/../../rootx/" + HN[0]), ("GET", 0, b"/org/repo/" + H1), ("GET", 0, b"/../out/" + H1), ("GET", 0, b"/org/repo/../../../out/" + H1),
                ("GET", 0, b"/org/repo/../repo/" + H1), ("GET", 0, b"/../rootx/" + H1), ("GET", 0, b"org/repo/" + H2 + b".darc"), ("GET", 0, b"/" + H1), ("GET", 0, b".."),
                ("GET", 0, b""), ("POST", 0, b"/" + HN[0]), ("POST", 1, b"/../x/" + HN[0]), ("POST", 1, b"org/repo/" + HN[0]), ("GET", 1, b"org/repo/" + H1),
                ("POST", 2, b"/%2e%2e/x/" + HN[0]), ("POST", 2, b"/org%2f..%2f..%2fx/" + HN[0]), ("GET", 2, b"/org/repo/%2e%2e/%2e%2e/%2e%2e/out/" + H1),
                ("GET", 0, b"/a\x00b/" + H1), ("GET", 0, b"/" + LONG + b"/" + H1), ("POST", 0, b"/a\x00b/" + HN[0]), ("POST", 0, b"/" + LONG + b"/" + HN[0]),
                ("GET", 1, b"a b/" + H1), ("DELETE", 0, b"/org/repo/" + H1),
                ("PUT", 0, b"//" + GUARD + b"/solo/" + HN[0]), ("POST", 0, b"///" + GUARD + b"/new/repo/" + HN[1]), ("GET", 0, b"//" + GUARD + b"/org/repo/" + H1),
                ("PUT", 1, b"///" + GUARD + b"/solo/" + HN[0])]
FIXED_SEAL = [({"path": list(b"org/repo/" + H1), "query": list(QUERIES[1])}, {"t": "none"}),
              ({"path": list(b"a b/c"), "query": list(QUERIES[1])}, {"t": "none"}),
              ({"path": list(b"a b/c"), "query": list(QUERIES[1])}, {"t": "path", "p": list(b"/single_symmetric_key_sealed_request/a%2520b/c")}),
              ({"path": list(b"a:b/c"), "query": []}, {"t": "none"}),
              ({"path": list(b"/a:b/c"), "query": []}, {"t": "none"}),
              ({"path": list(b"*"), "query": []}, {"t": "none"}),
              ({"path": [], "query": list(b"x=1")}, {"t": "none"}),
              ({"path": list(b"org/repo/" + H1), "query": []}, {"t": "nonce", "f": {"k": "val", "v": [1] * 11}})]


def gen_cases(rng, tier):
    ns, nh, ng = (380, 480, 200) if tier == "quick" else (12000, 16000, 6000)
    cases = []
    for u, m in FIXED_SEAL:
        cases.append({"kind": "seal", "u": u, "mut": m})
    for meth, mode, p in FIXED_HANDLE:
        c = {"kind": "handle", "mode": mode, "method": meth, "ro": False, "qbad": False, "path": list(p)}
        c.update(_ctx())
        cases.append(c)
    for m, p in FIXED_GRPC:
        c = {"kind": "grpc", "gmethod": m, "path": list(p), "useid": False, "org": [], "rname": []}
        c.update(_ctx())
        cases.append(c)
    c = {"kind": "grpc", "gmethod": "Root", "path": [], "useid": True, "org": list(b".."), "rname": list(b"idesc")}
    c.update(_ctx())
    cases.append(c)
    cases += [gen_seal(rng) for _ in range(ns)]
    cases += [gen_handle(rng) for _ in range(nh)]
    cases += [gen_grpc(rng) for _ in range(ng)]
    return cases


# ---------------------------------------------------------------- running: find out whether POST/PUT applies the guard
CANARY = {"kind": "handle", "mode": 0, "method": "POST", "ro": False, "qbad": False, "path": list(b"/../canary/" + HN[2]),
          "root": list(ROOT), "files": [], "dirs": []}


GCANARY = {"kind": "grpc", "gmethod": "Root", "path": list(b"../gcanary"), "useid": False, "org": [], "rname": [], "root": list(ROOT), "files": [], "dirs": []}


def run_impl(ctx, binary, cases):
    """The model of the POST/PUT branch has a switch [guard] (clean-and-reject applied or not). Which of the two
    the tree under check implements is read off one canary request; the oracle does not depend on it."""
    can = vlib.run_harness(binary, HARNESS_RUNNER, [CANARY])[0].get("obs") or {}
    guard = can.get("status") == 400 and not can.get("touched")
    gcan = vlib.run_harness(binary, HARNESS_RUNNER, [GCANARY])[0].get("obs") or {}
    gguard = bool(gcan.get("gerr")) and not gcan.get("touched")
    for c in cases:
        if c.get("kind") == "handle":
            c["guard"] = guard
        elif c.get("kind") == "grpc":
            c["guard"] = gguard
    return vlib.run_harness(binary, HARNESS_RUNNER, cases, timeout=1800)


# ---------------------------------------------------------------- Coq printers
def _fld(f):
    if f["k"] == "absent":
        return "FAbsent"
    if f["k"] == "bad":
        return "FBad"
    return "(FVal %s)" % cq_bytes(f["v"])


def _url(u):
    return "{| u_path := %s; u_query := %s |}" % (cq_bytes(u["path"]), cq_bytes(u["query"]))


def _ures(r):
    if r["k"] == "ok":
        return "(UOk {| u_path := %s; u_query := %s |})" % (cq_bytes(r["path"]), cq_bytes(r["query"]))
    if r["k"] == "panic":
        return "UPanic"
    return "(URej %d)" % r["code"]


BAD_SEAL = "(ISeal [] [] 0%Z 0%Z {| u_path := []; u_query := [] |} MNone 0%Z, OHandle [] [] {| h_status := 0; h_read := None; h_touched := [] |})"


def _abs(rel):
    return b"/SB/" + bytes(rel)


def coq_case(case, out):
    o = out.get("obs")
    if o is None or out.get("err") or out.get("panic") or o.get("skipped"):
        return BAD_SEAL
    if case["kind"] == "seal":
        m = case["mut"]
        t = m["t"]
        if t == "none":
            mt = "MNone"
        elif t == "path":
            mt = "(MPath %s)" % cq_bytes(m["p"])
        elif t == "req":
            mt = "(MReq %s)" % _fld(o["mutf"])
        elif t == "reqof":
            mt = "(MReqOf %s %s %s %s)" % (cq_bytes(o.get("nonce2") or []), cq_Z(o.get("d1", 0)), cq_Z(o.get("d2", 0)), _url(m["u2"]))
        elif t == "nonce":
            mt = "(MNonce %s)" % _fld(o["mutf"])
        elif t == "nbf":
            mt = "(MNbf %s)" % _fld(o["mutf"])
        elif t == "exp":
            mt = "(MExp %s)" % _fld(o["mutf"])
        else:
            mt = "(MForge %s %s)" % (cq_bytes(o.get("nbfs") or []), cq_bytes(o.get("exps") or []))
        i = "(ISeal %s %s %s %s %s %s %s)" % (cq_bytes(o.get("key") or []), cq_bytes(o.get("nonce") or []), cq_Z(o.get("now1", 0)), cq_Z(o.get("now2", 0)), _url(case["u"]), mt, cq_Z(o.get("nowu", 0)))
        ob = "(OSeal %s %s %s)" % (cq_bytes(o.get("spath") or []), cq_bytes(o.get("pt") or []), _ures(o["res"]))
        return "(%s, %s)" % (i, ob)
    if case["root"] == list(ROOT) and case["files"] == [list(f) for f in FILES] and case["dirs"] == [list(d) for d in DIRS]:
        ctx = "std_ctx"     # the same tree, written out once in C39/Corr.v
    else:
        ctx = "{| fs_root := %s; fs_files := %s; fs_dirs := %s |}" % (
            cq_bytes(_abs(case["root"])), cq_list(cq_bytes(_abs(f)) for f in case["files"]), cq_list(cq_bytes(_abs(d)) for d in case["dirs"]))
    if case["kind"] == "grpc":
        i = "(IGrpc %s %s %s %s %s %s)" % (cq_bool(case.get("guard", False)), ctx, cq_bool(case["useid"]), cq_bytes(case["path"]), cq_bytes(case["org"]), cq_bytes(case["rname"]))
        ob = "(OGrpc %s %s %s %s)" % (cq_bytes(o["cleaned"] or []), cq_bytes(o["joined"] or []), cq_bool(o["gerr"]), cq_list(cq_bytes(t) for t in (o["touched"] or [])))
        return "(%s, %s)" % (i, ob)
    meth = {"GET": 0, "POST": 1, "PUT": 2}.get(case["method"], 3)
    i = "(IHandle %s %s %d %d %s %s %s)" % (cq_bool(case.get("guard", False)), ctx, case["mode"], meth, cq_bool(case["ro"]), cq_bool(case["qbad"]), cq_bytes(case["path"]))
    rd = "(Some %s)" % cq_bytes(o["read"] or []) if o.get("hasread") else "None"
    ob = "(OHandle %s %s {| h_status := %d; h_read := %s; h_touched := %s |})" % (
        cq_bytes(o["cleaned"] or []), cq_bytes(o["joined"] or []), o["status"], rd, cq_list(cq_bytes(t) for t in (o["touched"] or [])))
    return "(%s, %s)" % (i, ob)


# ---------------------------------------------------------------- classification
def _outside(o):
    root = _abs(ROOT)
    res = []
    for t in (o.get("touched") or []):
        tb = bytes(t)
        if not (tb == root or tb.startswith(root + b"/")):
            res.append(tb)
    if o.get("hasread"):
        rb = bytes(o.get("read") or [])
        if not rb.startswith(root + b"/"):
            res.append(rb)
    return res


def classify(case, out):
    o = out.get("obs")
    if o is None or out.get("panic") or out.get("err"):
        return ["harness-error"]
    if o.get("skipped"):
        return ["skipped"]
    t = []
    if case["kind"] == "seal":
        r = o["res"]
        p = bytes(case["u"]["path"])
        t.append("seal-mut-" + case["mut"]["t"])
        if not _plain_path(p):
            t.append("seal-nonplain")
            if _sealable(p) and case["mut"]["t"] == "none" and r["k"] == "ok":
                t.append("reg-escaped-path-roundtrips")
        if not _sealable(p):
            t.append("seal-residual-class")
        if r["k"] == "ok":
            t.append("seal-ok")
        elif r["k"] == "panic":
            t.append("seal-panic-nonce")
        else:
            t.append({1: "seal-rej-prefix", 2: "seal-rej-missing", 3: "seal-rej-int", 4: "seal-rej-nonce64", 5: "seal-rej-window", 6: "seal-rej-window",
                      7: "seal-rej-req64", 8: "seal-rej-open", 9: "seal-rej-parse", 10: "seal-rej-path"}.get(r["code"], "seal-rej-other"))
        return t
    if case["kind"] == "grpc":
        rp = (bytes(case["org"]) + b"/" + bytes(case["rname"])) if case["useid"] else bytes(case["path"])
        t.append("grpc-" + case["gmethod"])
        t.append("grpc-err" if o.get("gerr") else "grpc-ok")
        if b".." in rp.split(b"/"):
            t.append("grpc-dotdot")
        if rp.startswith(b"/"):
            t.append("grpc-absolute")
        if case["useid"]:
            t.append("grpc-repo-id")
        if _outside(o):
            t.append("OUTSIDE-ROOT")
        if rp in (b"../x", b"../../esc/repo", b"/SB/r1/abs", b"../idesc") and o.get("gerr") and not o.get("touched"):
            t.append("reg-grpc-escape-rejected")
        return t
    p = bytes(case["path"])
    m = case["method"]
    t.append("mode-" + {0: "identity", 1: "sealed", 2: "raw"}[case["mode"]])
    t.append("%s-%d" % ({"GET": "get", "POST": "post", "PUT": "post"}.get(m, "other"), o["status"]))
    if b".." in p or b"%2e%2e" in p.lower():
        t.append("dotdot")
        if m in ("POST", "PUT"):
            t.append("post-dotdot")
    if b"\x00" in p or b"%00" in p:
        t.append("nul")
    if LONG in p:
        t.append("longname")
    if b"//" in p:
        t.append("double-slash")
    if p.startswith(b"//") and GUARD in p:
        t.append("double-slash-guard")
    if _outside(o):
        t.append("OUTSIDE-ROOT")
    if m in ("POST", "PUT") and p == b"/../x/" + HN[0] and case["mode"] == 0 and o["status"] == 400 and not o.get("touched"):
        t.append("reg-post-escape-rejected")
    return t


def nontrivial(case, out):
    if case["kind"] == "grpc":
        return True
    if case["kind"] == "seal":
        return case["mut"]["t"] != "none" or not _plain_path(bytes(case["u"]["path"]))
    o = out.get("obs") or {}
    p = bytes(case["path"])
    return b".." in p or b"%" in p or b"//" in p or o.get("status") in (200, 404, 500)


def match_known(finding, case, out):
    o = out.get("obs") or {}
    key = finding.get("key", "")
    if key == "remotesrv.sealer:relative-colon-or-double-slash-path":
        # residual of the sealer finding after f75d72f: URL.String writes "./a:b/…" for a relative path whose first segment
        # contains ':', and url.Parse reads "//x/…" as an authority: Unseal rejects the URL Seal issued
        return case.get("kind") == "seal" and not _sealable(bytes(case["u"]["path"]))
    return False


# no shrink_candidates: the generated cases are already minimal in structure (one path, one mutation); an
# unregistered finding would otherwise be shrunk once per failing case (a harness + coqc round per step).


def neighbours(case, rng):
    out = []
    if case["kind"] == "handle":
        for meth in ("GET", "POST", "PUT"):
            for pre in (b"/../", b"/../../", b"/./../", b"//../x/../"):
                c = dict(case)
                c["method"] = meth
                c["path"] = list(pre + bytes(case["path"]).lstrip(b"/"))
                if bytes(c["path"]).count(b"..") <= 4:
                    out.append(c)
    else:
        for _ in range(60):
            c = gen_seal(rng)
            c["u"] = case["u"]
            out.append(c)
    return out


def search_cases(rng):
    return [gen_handle(rng) for _ in range(150)] + [gen_seal(rng) for _ in range(150)]
