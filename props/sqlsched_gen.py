"""Generators / Coq printers shared by the SQL-schedule properties (C22, C23).

A case: {"init": [[k,a,b]...], "nsess": n, "autos": [sessions with autocommit on],
         "steps": [[sess, kind, x, y, z] ...]}     NULL is written -1.
Statement kinds (harness/c23/c23.go): 0 BEGIN 1 COMMIT 2 ROLLBACK 3 SELECT 4 INSERT(k,a,b)
 5 UPDATE(k,col,v) 6 DELETE(k) 7 UPDATE col=col+d (k,col,d) 8 SELECT WHERE pk=k
"""
from lib.vlib import cq_list

KEYS = [1, 2, 3, 4]
K_BEGIN, K_COMMIT, K_ROLLBACK, K_SELECT, K_INSERT, K_UPDATE, K_DELETE, K_UPDADD, K_SELKEY = range(9)


def _val(rng):
    return -1 if rng.random() < 0.15 else rng.randint(0, 2)


def gen_stmt(rng, sess, hot, read_bias=0.0):
    k = rng.choice(hot) if rng.random() < 0.7 else rng.choice(KEYS)
    if read_bias and rng.random() < read_bias:
        return [sess, K_SELECT, 0, 0, 0] if rng.random() < 0.75 else [sess, K_SELKEY, k, 0, 0]
    r = rng.random()
    if r < 0.07:
        return [sess, K_BEGIN, 0, 0, 0]
    if r < 0.24:
        return [sess, K_COMMIT, 0, 0, 0]
    if r < 0.28:
        return [sess, K_ROLLBACK, 0, 0, 0]
    if r < 0.40:
        return [sess, K_SELECT, 0, 0, 0]
    if r < 0.52:
        return [sess, K_INSERT, k, _val(rng), _val(rng)]
    if r < 0.74:
        return [sess, K_UPDATE, k, rng.randint(0, 1), _val(rng)]
    if r < 0.82:
        return [sess, K_DELETE, k, 0, 0]
    if r < 0.93:
        return [sess, K_UPDADD, k, rng.randint(0, 1), rng.randint(1, 2)]
    return [sess, K_SELKEY, k, 0, 0]


def gen_one_txn(rng, read_bias=0.0):
    nsess = rng.choice([2, 2, 3, 3, 4])
    init = [[k, _val(rng), _val(rng)] for k in KEYS if rng.random() < 0.6]
    autos = [s for s in range(nsess) if rng.random() < 0.15]
    hot = rng.sample(KEYS, 2)
    n = rng.randint(8, 30)
    steps = []
    # sessions run in bursts so that transactions overlap but also make progress
    cur = rng.randrange(nsess)
    for _ in range(n):
        if rng.random() < 0.45:
            cur = rng.randrange(nsess)
        steps.append(gen_stmt(rng, cur, hot, read_bias))
    order = list(range(nsess))
    rng.shuffle(order)
    for s in order:
        steps.append([s, K_COMMIT, 0, 0, 0])
    return {"init": init, "nsess": nsess, "autos": autos, "steps": steps}


FIXED_TXN = [
    # cell-wise merge of two updates of one row
    {"init": [[1, 0, 0], [2, 0, 0]], "nsess": 2, "autos": [], "steps": [[0, 0, 0, 0, 0], [1, 0, 0, 0, 0], [0, 5, 1, 0, 1], [1, 5, 1, 1, 2], [0, 1, 0, 0, 0], [1, 3, 0, 0, 0], [1, 1, 0, 0, 0], [1, 3, 0, 0, 0]]},
    # same cell, different values: second commit refused, retried
    {"init": [[1, 0, 0], [2, 0, 0]], "nsess": 2, "autos": [], "steps": [[0, 5, 1, 0, 1], [1, 5, 1, 0, 2], [0, 1, 0, 0, 0], [1, 3, 0, 0, 0], [1, 1, 0, 0, 0], [1, 3, 0, 0, 0], [1, 5, 1, 0, 2], [1, 1, 0, 0, 0]]},
    # delete against modification
    {"init": [[1, 0, 0], [2, 0, 0]], "nsess": 2, "autos": [], "steps": [[0, 5, 1, 0, 1], [1, 6, 1, 0, 0], [0, 1, 0, 0, 0], [1, 1, 0, 0, 0], [1, 3, 0, 0, 0]]},
    {"init": [[1, 0, 0], [2, 0, 0]], "nsess": 2, "autos": [], "steps": [[0, 6, 1, 0, 0], [1, 5, 1, 1, 2], [0, 1, 0, 0, 0], [1, 1, 0, 0, 0], [1, 3, 0, 0, 0]]},
    # convergent and divergent inserts
    {"init": [[1, 0, 0]], "nsess": 2, "autos": [], "steps": [[0, 4, 3, 1, 1], [1, 4, 3, 1, 1], [0, 1, 0, 0, 0], [1, 1, 0, 0, 0], [1, 3, 0, 0, 0], [0, 4, 4, 1, -1], [1, 4, 4, -1, 1], [0, 1, 0, 0, 0], [1, 1, 0, 0, 0]]},
    # BEGIN inside a conflicting transaction
    {"init": [[1, 0, 0]], "nsess": 2, "autos": [], "steps": [[0, 5, 1, 0, 1], [1, 5, 1, 0, 2], [0, 1, 0, 0, 0], [1, 0, 0, 0, 0], [1, 3, 0, 0, 0], [1, 1, 0, 0, 0]]},
    # autocommit session against an open transaction
    {"init": [[1, 0, 0], [2, 1, 1]], "nsess": 2, "autos": [1], "steps": [[0, 3, 0, 0, 0], [1, 5, 1, 0, 2], [0, 3, 0, 0, 0], [0, 5, 1, 1, 2], [1, 3, 0, 0, 0], [0, 1, 0, 0, 0], [1, 3, 0, 0, 0], [1, 0, 0, 0, 0], [1, 6, 2, 0, 0], [0, 3, 0, 0, 0], [1, 1, 0, 0, 0], [0, 3, 0, 0, 0], [0, 1, 0, 0, 0], [0, 3, 0, 0, 0]]},
    # A -> B -> A : persisted state equals the start state again (fast path)
    {"init": [[1, 0, 0]], "nsess": 3, "autos": [], "steps": [[0, 5, 1, 1, 2], [1, 5, 1, 0, 1], [1, 1, 0, 0, 0], [2, 5, 1, 0, 0], [2, 1, 0, 0, 0], [0, 1, 0, 0, 0], [0, 3, 0, 0, 0]]},
]


def gen_cases_txn(rng, tier, read_bias=0.0):
    n = 330 if tier == "quick" else 12000
    cases = [dict(c) for c in FIXED_TXN]
    while len(cases) < n:
        cases.append(gen_one_txn(rng, read_bias))
    return cases


# ---------------------------------------------------------------- Coq printing
def cq_cell(v):
    return "None" if v < 0 else "(Some %d)" % v


def cq_row(r):
    return "(%d, %s, %s)" % (r[0], cq_cell(r[1]), cq_cell(r[2]))


def cq_stmt(st):
    k, x, y, z = st[1], st[2], st[3], st[4]
    if k == K_BEGIN:
        return "SBegin"
    if k == K_COMMIT:
        return "SCommit"
    if k == K_ROLLBACK:
        return "SRollback"
    if k == K_SELECT:
        return "SSelect"
    if k == K_INSERT:
        return "SInsert %d %s %s" % (x, cq_cell(y), cq_cell(z))
    if k == K_UPDATE:
        return "SUpdate %d %d %s" % (x, y, cq_cell(z))
    if k == K_DELETE:
        return "SDelete %d" % x
    if k == K_UPDADD:
        return "SUpdAdd %d %d %d" % (x, y, z)
    if k == K_SELKEY:
        return "SSelectKey %d" % x
    raise ValueError(k)


def case_keys(case):
    ks = set(r[0] for r in case["init"])
    for st in case["steps"]:
        if st[1] in (K_INSERT, K_UPDATE, K_DELETE, K_UPDADD, K_SELKEY):
            ks.add(st[2])
    return sorted(ks)


def cq_input(case):
    return "{| i_U := %s; i_init := %s; i_autos := %s; i_sched := %s |}" % (
        cq_list(str(k) for k in case_keys(case)),
        cq_list(cq_row(r) for r in case["init"]),
        cq_list(str(a) for a in case.get("autos", [])),
        cq_list("(%d, %s)" % (st[0], cq_stmt(st)) for st in case["steps"]))


def cq_sobs(s):
    rows = s.get("rows") or []
    ok = all(len(r) == 3 and r[0] >= 0 and all(x >= -1 for x in r) for r in rows)
    if not ok:
        return "{| so_err := 77; so_aff := 0; so_rows := [] |}"
    return "{| so_err := %d; so_aff := %d; so_rows := %s |}" % (s["err"], max(0, s.get("aff", 0)), cq_list(cq_row(r) for r in rows))


BAD_OBS = "{| o_steps := [{| so_err := 99; so_aff := 0; so_rows := [] |}]; o_final := [(99, None, None)] |}"


def coq_case_txn(case, out):
    o = out.get("obs")
    if o is None or out.get("err") or out.get("panic"):
        return "(%s, %s)" % (cq_input(case), BAD_OBS)
    return "(%s, {| o_steps := %s; o_final := %s |})" % (
        cq_input(case), cq_list(cq_sobs(s) for s in o["steps"]), cq_list(cq_row(r) for r in o["final"]))


# ---------------------------------------------------------------- classification (distribution only)
def _sim(case, out, reads=False):
    """Follow the schedule with the implementation's commit outcomes; used only to describe the distribution."""
    tags = set()
    o = out.get("obs")
    if o is None:
        return ["panic"]
    head = {r[0]: (r[1], r[2]) for r in case["init"]}
    autos = set(case.get("autos", []))
    ss = {}
    nontriv = 0
    version = [0]

    def commit(i, err):
        nonlocal head, nontriv
        s = ss.get(i)
        snap, work = s["snap"], s["work"]
        s["active"] = False
        changed = [k for k in set(snap) | set(work) if snap.get(k) != work.get(k)]
        if changed:
            nontriv += 1
        for k in changed:
            b, l, r = snap.get(k), head.get(k), work.get(k)
            if l != b:
                if b is None and l is not None and r is not None:
                    tags.add("insert-insert")
                elif (l is None) != (r is None):
                    tags.add("delete-vs-modify")
                elif l is not None and r is not None and l != r:
                    if all(not (l[c] != b[c] and r[c] != b[c] and l[c] != r[c]) for c in (0, 1)):
                        tags.add("cellwise-merge")
        if err == 0:
            if changed:
                version[0] += 1
            tags.add("commit-ok")
            if head != snap and changed:
                tags.add("merge-nonff")
            nh = dict(head)
            for k in changed:
                b, l, r = snap.get(k), head.get(k), work.get(k)
                if r is None:
                    nh.pop(k, None)
                elif l is None or b is None:
                    nh[k] = r
                else:
                    nh[k] = tuple(r[c] if r[c] != b[c] else l[c] for c in (0, 1))
            head = nh
        elif err == 1:
            tags.add("commit-conflict")
        else:
            tags.add("commit-other-error")

    for st, so in zip(case["steps"], o["steps"]):
        i, k = st[0], st[1]
        s = ss.setdefault(i, {"active": False, "snap": {}, "work": {}})
        if so["err"] == 2:
            tags.add("dup-key")
        if so["err"] == 3:
            tags.add("other-error")
        if k == K_COMMIT:
            if s["active"]:
                commit(i, so["err"])
        elif k == K_ROLLBACK:
            s["active"] = False
            tags.add("rollback")
        elif k == K_BEGIN:
            if s["active"]:
                tags.add("begin-in-txn")
                commit(i, so["err"])
                if so["err"] != 0:
                    continue
            s.update(active=True, snap=dict(head), work=dict(head), ver=version[0])
        else:
            implicit = not s["active"]
            if implicit:
                s.update(active=True, snap=dict(head), work=dict(head), ver=version[0])
            w = s["work"]
            x, y, z = st[2], st[3], st[4]
            if so["err"] == 0:
                if k == K_INSERT:
                    w[x] = (y, z)
                elif k == K_UPDATE and x in w:
                    r = list(w[x]); r[y] = z; w[x] = tuple(r)
                elif k == K_UPDADD and x in w:
                    r = list(w[x])
                    if r[y] >= 0:
                        r[y] += z
                    w[x] = tuple(r)
                elif k == K_DELETE:
                    w.pop(x, None)
                elif k in (K_SELECT, K_SELKEY):
                    tags.add("read")
                    if s.get("ver", 0) != version[0]:
                        tags.add("read-after-foreign-commit")
                    if s["work"] != s["snap"]:
                        tags.add("read-own-write")
            if implicit and i in autos:
                tags.add("autocommit")
                commit(i, so["err"] if so["err"] == 1 else 0)
    if nontriv:
        tags.add("nontrivial")
    tags.add("sessions-%d" % case["nsess"])
    return sorted(tags)


def classify_txn(case, out, reads=False):
    return _sim(case, out, reads)


def nontrivial_txn(case, out):
    return "nontrivial" in _sim(case, out)


def shrink_txn(case):
    st = case["steps"]
    for i in range(len(st)):
        c = dict(case); c["steps"] = st[:i] + st[i + 1:]
        yield c
    for i in range(len(case["init"])):
        c = dict(case); c["init"] = case["init"][:i] + case["init"][i + 1:]
        yield c
    if case.get("autos"):
        c = dict(case); c["autos"] = []
        yield c


def neighbours_txn(case, rng):
    out = []
    st = case["steps"]
    for _ in range(60):
        c = dict(case)
        s2 = [list(x) for x in st]
        i = rng.randrange(len(s2) + 1)
        s2.insert(i, gen_stmt(rng, rng.randrange(case["nsess"]), KEYS))
        c["steps"] = s2
        out.append(c)
    for _ in range(40):
        if len(st) >= 2:
            s2 = [list(x) for x in st]
            i = rng.randrange(len(s2) - 1)
            s2[i], s2[i + 1] = s2[i + 1], s2[i]
            c = dict(case); c["steps"] = s2
            out.append(c)
    return out
