"""C10 — Corrupted storage files are reported, never misread; never crashes."""
import re
from lib import vlib
from lib.vlib import cq_bytes, cq_list

ID = "C10"
HARNESS_PKG = "c10"
HARNESS_RUNNER = "c10"
COQ_TARGETS = ["theories/C10/Corr.vo"]
COQ_CORR_MODULE = "Base.Str C10.Model C10.Spec C10.Corr"
COQ_CASE_TYPE = "C10.Corr.case"
COQ_CHECK = "C10.Corr.check_case"
COQ_MODEL_OBS = "(fun c => C10.Corr.model_obs (fst c))"
COQ_SHARD = 150
HARNESS_TIMEOUT = 3000
COQ_EVAL_TIMEOUT = 1800
DESIGN_REF = "§5 C10, §6 F3"
TECHNIQUE = ("Coq proof over byte-level validating-parser models (Ok | Err | Panic) of the table index/footer reader, the journal record "
             "scanner and the manifest parser, for every byte string; refutations by vm_compute witnesses replayed on the real readers; "
             "in-Coq correspondence on corrupted files written by the real writers (child process per worker: goroutine panics are observed)")
LEVEL_TEXT = ("Proof (F/M): for every byte string the models of the table footer/index reader (open, has, get, getMany, iterateAllChunks), of the "
              "journal record scanner incl. the data-loss resynchronisation, and of the manifest parser never panic (unconditional; the models mirror "
              "every bounds check the repaired Go code performs and none it does not, incl. Go's capacity rule for re-slicing); a successful get returns "
              "exactly the checksummed record the index designates for the address. REFUTED and kept as open known findings: content is never compared "
              "with the address (records exchanged under valid checksums; iteration labels chunks with the unchecksummed index's address).")
LEVEL_NOTE = ("Trusted: Coq kernel, translator constants, Go harness + Python glue. Modelled, not verified: snappy decode (opaque after the checksum), "
              "zstd (dictionary creation / decompression: the archive model abstains once a dictionary span is read), allocations between 128 MiB and 4 GiB "
              "(model abstains; the worker runs under a 3 GiB RLIMIT_AS), archive getMany / tolerantIterate and every store-level call (NewLocalStore / "
              "NewLocalJournalingStore + Root/Has/Get/GetMany/HasMany on a database with one corrupted file) are oracle-only: no model prediction, strict "
              "no-panic / content-hashes-to-address verdict; the mmap archive index reader is not exercised; "
              "hash.Of (the harness reports content-hash = address), errgroup goroutines of getMany (model: lookup phase + the argument that batch buffers cover "
              "their members), os.File.ReadAt short-read semantics.")
THEOREMS = ["no_panic_open_table", "no_panic_table", "no_panic_journal_scan", "no_panic_manifest", "oracle_model", "no_misread_get",
            "no_misread_refuted", "iterate_mislabel_refuted", "psearch_total", "no_panic_archive_has", "no_panic_archive_open",
            "no_panic_archive_get", "no_panic_archive_get_many", "no_panic_archive_iterate", "archive_misread_refuted", "archive_iterate_mislabel_refuted"]
REFUTED = ["no_misread_refuted", "iterate_mislabel_refuted", "archive_misread_refuted", "archive_iterate_mislabel_refuted"]
RULE = ("files written by the real writers (table files of 1-6 chunks, journals of 2-7 records, v5/v4 manifests of 0-3 specs) with: every single-byte "
        "corruption of index+footer (thorough: 3 values per position; quick: one rotating value), sampled data-area flips, every/sampled truncation, "
        "field-targeted edits (counts, lengths, ordinals, prefixes, magic), record swaps with valid checksums, appended tails, manifest count disagreement; "
        "non-trivial = the mutated file differs from the pristine one or is the pristine control; distinct by mutation list + base")
ASSUMPTIONS = ["ResolveShortHash is given at most 32 base32 characters (hash.Parse in padStringAndDecode panics otherwise: caller-side precondition, not file content)",
               "generated length entries stay <= 144 MiB (one 4 GiB probe in the thorough tier): the readers allocate the declared length before reading, which is slow but neither a crash nor a misread",
               "table files in generated cases hold at most 12 chunks (sort.Slice is then a stable insertion sort, as modelled)",
               "a span whose CRC32C validates snappy-decodes (model answers 'ok' where the implementation may answer a snappy error)",
               "journal inputs are shorter than the 10 MiB resynchronisation buffer of possibleDataLossCheck"]
REQUIRED_TAGS = ["table", "journal", "manifest", "t-pristine", "t-open-err", "t-get-err", "t-has-err", "t-iter-err", "t-gm-err", "t-iter-mislabel",
                 "t-absent", "t-misread", "j-ok", "j-err", "j-dataloss", "j-truncated", "m-ok", "m-err",
                 "reg:length-lt-checksum-size", "reg:ordinal-ge-count", "reg:length-gt-iterate-buffer", "reg:journal-short-field", "reg:manifest-bad-root", "reg:resolve-short-hash",
                 "archive", "a-open-ok", "a-open-err", "a-get-ok", "a-get-err", "a-misread", "a-iter-ok", "a-iter-err", "a-iter-bad",
                 "reg:archive-chunk-ref", "reg:archive-span-length", "reg:archive-footer-counts", "a-gm-err", "a-gm-ok", "a-ref-swap-clean", "t-extras",
                 "store", "s-table-manifest", "s-table-table", "s-journal-journal", "s-journal-idx", "s-archive-archive", "s-open-ok", "s-open-err", "s-op-err", "s-all-ok",
                 "resolve", "r-short-ok", "r-long-ok", "r-short-err", "r-long-err", "r-found", "r-none", "r-last-tuple-long"]

# open known findings (reads never compare the content hash with the address).  The repaired findings
# (table-index:length-lt-checksum-size, table-index:ordinal-ge-count, table-index:length-gt-iterate-buffer,
#  journal-record:short-field-valid-crc, manifest:root-hash-malformed) are NOT matched any more: a panic is a violation.
# repaired in e8df418 and no longer matched: archive-index:chunk-ref-unchecked, archive-index:span-length-unchecked, archive-footer:counts-unchecked
# repaired in 002bc81 and no longer matched: archive-getmany:span-unchecked
KEY_A_SWAP = "archive-index:chunk-ref-redirected-valid-crc"
KEY_A_ITER = "archive-index:iterate-address-from-corrupt-index"
KEY_SWAP = "table-file:record-replaced-valid-crc"
KEY_ITER = "table-index:iterate-address-from-corrupt-index"


# ----------------------------------------------------------------------------------------------
# generator
# ----------------------------------------------------------------------------------------------
def rbytes(rng, n):
    return [rng.randrange(256) for _ in range(n)]


def be32(v):
    return [(v >> 24) & 255, (v >> 16) & 255, (v >> 8) & 255, v & 255]


def table_base(rng, c, same=False):
    if same:
        n = rng.randint(6, 14)
        return [rbytes(rng, n) for _ in range(c)]
    return [rbytes(rng, rng.randint(1, 30)) for _ in range(c)]


def tcase(chunks, muts, cnt=-1, absent=None, label=""):
    return {"k": "table", "chunks": chunks, "absent": absent if absent is not None else [[1, 2, 3], [250]], "cnt": cnt, "muts": muts, "label": label}


FLIPS = [1, 128, 255]


def table_cases(rng, tier):
    out = []
    quick = tier == "quick"
    bases = [table_base(rng, c) for c in ((3,) if quick else (1, 2, 3, 4, 5, 6))]
    phase = rng.randrange(2)
    for chunks in bases:
        c = len(chunks)
        isz = 28 * c + 20
        out.append(tcase(chunks, [], label="pristine"))
        # every single-byte corruption of index + footer
        for p in range(1, isz + 1):
            if quick and p % 2 != phase and p > 20:
                continue                      # quick: every footer byte, every second index byte (offset drawn from the seed)
            vals = [FLIPS[p % 3]] if quick else FLIPS
            lpos = isz - p - 12 * c            # offset inside the lengths region, if any
            if 0 <= lpos < 4 * c and lpos % 4 == 0:
                # most significant byte of a length entry: the reader allocates the declared length before it reads
                # (make([]byte, length) in get, the grown scratch buffer in iterateAllChunks): 2-4 GiB per lookup, ~30 s a case.
                # Not a crash and not this property; those values are replaced by flips that keep the length <= 144 MiB.
                vals = [1] if quick else [1, 2, 8]
            if p == 20:
                # most significant byte of the footer's chunk count: parseTableIndex allocates chunks1*offsetSize bytes (up to 4 GiB,
                # uint32 arithmetic) BEFORE newOnHeapTableIndex compares the buffer size with the count (~25 s a case; not a crash)
                vals = [1] if quick else [1, 2, 4]
            for v in vals:
                out.append(tcase(chunks, [{"op": "xor", "pos": -p, "v": v}], label="flip-index"))
        # data area flips
        for _ in range(6 if quick else 60):
            out.append(tcase(chunks, [{"op": "xor", "pos": rng.randrange(0, 200), "v": rng.choice(FLIPS)}], label="flip-any"))
        # truncations
        tr = list(range(1, isz + 12)) if not quick else sorted(set([1, 2, 7, 8, 9, 19, 20, 21, 28, isz - 1, isz, isz + 1] + [rng.randrange(1, isz + 10) for _ in range(6)]))
        for n in tr:
            out.append(tcase(chunks, [{"op": "trunc", "n": n}], label="trunc"))
        # field-targeted edits: tuples at -(isz) + 12*i (+8 ordinal), lengths at -(isz) + 12c + 4i, suffixes at -(isz)+16c+12i, footer at -20
        for i in range(c):
            for v in ([c, c + 1, 0xFFFFFFFF, (i + 1) % c] if quick else [c, c + 1, c + 2, 0xFFFFFFFF, 0x80000000, (i + 1) % c, 0]):
                out.append(tcase(chunks, [{"op": "set", "pos": -isz + 12 * i + 8, "bytes": be32(v)}], label="ordinal"))
            for v in ([0, 3, 4, 4194305] if quick else [0, 1, 2, 3, 4, 5, 255, 4194304, 4194305, 0x08000000]):
                out.append(tcase(chunks, [{"op": "set", "pos": -isz + 12 * c + 4 * i, "bytes": be32(v)}], label="length"))
        if not quick and c == 2:
            # one probe of a 4 GiB length (slow: see above)
            out.append(tcase(chunks, [{"op": "set", "pos": -isz + 12 * c, "bytes": be32(0xFFFFFFFF)}], label="length"))
        # all ordinals equal to count (garbage entry read through the capacity of the slices)
        out.append(tcase(chunks, [{"op": "set", "pos": -isz + 12 * i + 8, "bytes": be32(c)} for i in range(c)], label="ordinal"))
        out.append(tcase(chunks, [{"op": "set", "pos": -isz + 12 * i + 8, "bytes": be32(c + 7)} for i in range(c)], label="ordinal"))
        # footer: count, total, magic
        for v in [0, c - 1, c + 1, 0xFFFFFFFF]:
            out.append(tcase(chunks, [{"op": "set", "pos": -20, "bytes": be32(v)}], label="footer-count"))
        out.append(tcase(chunks, [{"op": "set", "pos": -16, "bytes": rbytes(rng, 8)}], label="footer-total"))
        out.append(tcase(chunks, [{"op": "set", "pos": -7, "bytes": [68, 79, 76, 84, 65, 82, 67]}], label="footer-magic"))
        # manifest disagrees about the count
        for d in (c - 1, c + 1, 0):
            out.append(tcase(chunks, [], cnt=d, label="manifest-count"))
        # prefixes: swap two tuples (unsorted prefix map), duplicate a tuple
        if c >= 2:
            out.append(tcase(chunks, [{"op": "set", "pos": -isz, "bytes": [255] * 8}], label="prefix"))
            out.append(tcase(chunks, [{"op": "set", "pos": -isz + 12 * (c - 1), "bytes": [0] * 8}], label="prefix"))
        # tails
        for _ in range(3 if quick else 20):
            n = rng.randint(1, isz)
            out.append(tcase(chunks, [{"op": "set", "pos": -n, "bytes": rbytes(rng, n)}], label="random-tail"))
        out.append(tcase(chunks, [{"op": "append", "bytes": rbytes(rng, rng.randint(1, 30))}], label="append"))
        out.append(tcase(chunks, [{"op": "del", "pos": rng.randrange(0, 60), "n": rng.randint(1, 4)}], label="delete"))
    # record replaced by another valid record of the same length (checksum still valid)
    for c in ((3,) if quick else (2, 3, 5)):
        chunks = table_base(rng, c, same=True)
        out.append(tcase(chunks, [{"op": "swaprec", "i": 0, "j": 1}], label="swaprec"))
        out.append(tcase(chunks, [{"op": "cprec", "i": 1, "j": 0}], label="swaprec"))
    out.append(tcase([], [], label="pristine") if False else tcase(table_base(rng, 1), [], label="pristine"))
    return out


def jcase(recs, muts, label=""):
    return {"k": "journal", "recs": recs, "muts": muts, "label": label}


def journal_base(rng, n):
    recs = []
    for i in range(n):
        if rng.random() < 0.35:
            recs.append({"t": "root", "data": rbytes(rng, 20)})
        else:
            recs.append({"t": "chunk", "data": rbytes(rng, rng.randint(1, 24))})
    return recs


def journal_cases(rng, tier):
    out = []
    quick = tier == "quick"
    for b in range(1 if quick else 8):
        recs = journal_base(rng, rng.randint(2, 5))
        recs.append({"t": "root", "data": rbytes(rng, 20)})
        recs.append({"t": "chunk", "data": rbytes(rng, 5)})
        out.append(jcase(recs, [], "pristine"))
        total = 80 * len(recs)
        step = 5 if quick else 1
        for p in range(0, total, step):
            out.append(jcase(recs, [{"op": "xor", "pos": p, "v": FLIPS[p % 3]}], "flip"))
        for n in ([1, 3, 4, 5, 9, 20, 40, 41, 60] if quick else range(1, 120)):
            out.append(jcase(recs, [{"op": "trunc", "n": n}], "trunc"))
        out.append(jcase(recs + [{"t": "raw", "data": [0] * 64}], [], "zero-pad"))
        out.append(jcase(recs + [{"t": "raw", "data": rbytes(rng, 50)}], [], "garbage-tail"))
        # corrupt an early record and keep valid synced records after it (data loss detection)
        out.append(jcase(recs, [{"op": "xor", "pos": 6, "v": 255}], "early-corruption"))
        out.append(jcase(recs, [{"op": "set", "pos": 0, "bytes": [0, 0, 0, 0]}], "zero-length"))
        out.append(jcase(recs, [{"op": "set", "pos": 0, "bytes": [0, 0, 0, 3]}], "short-length"))
        out.append(jcase(recs, [{"op": "set", "pos": 0, "bytes": [0, 0, 0, 7]}], "short-length"))
        out.append(jcase(recs, [{"op": "set", "pos": 0, "bytes": [0, 80, 0, 1]}], "long-length"))
    # records with a valid checksum and arbitrary field structure
    crafted = [[2, 1], [2] + [7] * 19, [4, 1, 2, 3], [4] + [1] * 7, [1], [1, 2], [9, 9, 9, 9, 9], [0, 1, 2, 3, 4], [3], [3, 1, 2, 3],
               [1, 2, 2] + [5] * 20, [1, 1, 4] + [0] * 8 + [2] + [6] * 20, [1, 2, 2] + [5] * 20 + [3, 9, 9, 9, 9, 9], [1, 2, 2] + [5] * 19, []]
    base = [{"t": "chunk", "data": [1, 2, 3]}]
    for bi, body in enumerate(crafted):
        out.append(jcase(base + [{"t": "crcraw", "data": body}], [], "crafted-valid-crc"))
        out.append(jcase(base + [{"t": "crcraw", "data": body}, {"t": "root", "data": [3] * 20}], [], "crafted-valid-crc"))
        # the same after an unreadable stretch: met by the data-loss resynchronisation
        if quick and bi % 3 != 0:
            continue
        out.append(jcase(base + [{"t": "raw", "data": [0, 0, 0, 9, 1, 2, 3, 4, 5]}, {"t": "root", "data": [4] * 20}, {"t": "crcraw", "data": body}, {"t": "raw", "data": [0] * 48}], [], "crafted-after-garbage"))
    if not quick:
        for _ in range(300):
            body = [rng.choice([1, 2, 3, 4, 0, 7])] + rbytes(rng, rng.randint(0, 30))
            out.append(jcase(base + [{"t": "crcraw", "data": body}, {"t": "raw", "data": [0] * 48}], [], "crafted-valid-crc"))
    return out


B32 = b"0123456789abcdefghijklmnopqrstuv"


def mcase(rng, nspecs, muts, label=""):
    return {"k": "manifest", "specs": [{"name": rbytes(rng, 20), "cnt": rng.choice([0, 1, 3, 77, 4294967295])} for _ in range(nspecs)],
            "nbf": list(b"__DOLT__"), "lock": rbytes(rng, 20), "root": rbytes(rng, 20), "gcgen": rbytes(rng, 20), "muts": muts, "label": label}


def manifest_cases(rng, tier):
    out = []
    quick = tier == "quick"
    for ns in ((1,) if quick else (0, 1, 2, 3)):
        st = rng.getstate()
        def base(muts, label):
            rng2 = __import__("random").Random()
            rng2.setstate(st)
            return mcase(rng2, ns, muts, label)
        n = 11 + 33 * 3 + ns * (33 + 4)
        out.append(base([], "pristine"))
        vals = [1, 32, 128, 255]
        mphase = rng.randrange(2)
        for p in range(0, n):
            if not quick or p % 2 == mphase or p < 12:
                for v in ([vals[p % 4]] if quick else vals):
                    out.append(base([{"op": "xor", "pos": p, "v": v}], "flip"))
            if not quick or p % 6 == 0:
                out.append(base([{"op": "set", "pos": p, "bytes": [58]}], "colon"))
        for k in ([1, 2, 5, 33, 34, 70] if quick else range(1, n)):
            out.append(base([{"op": "trunc", "n": k}], "trunc"))
        out.append(base([{"op": "set", "pos": 0, "bytes": [52]}], "v4"))
        out.append(base([{"op": "set", "pos": 0, "bytes": [52]}, {"op": "xor", "pos": 50, "v": 128}], "v4"))
        out.append(base([{"op": "set", "pos": 0, "bytes": [52]}, {"op": "del", "pos": 77, "n": 33}], "v4"))
        out.append(base([{"op": "set", "pos": 0, "bytes": [52]}, {"op": "del", "pos": 77, "n": 33}, {"op": "xor", "pos": 50, "v": 128}], "v4"))
        out.append(base([{"op": "set", "pos": 0, "bytes": [54]}], "version"))
        out.append(base([{"op": "ins", "pos": 0, "bytes": list(b"12345678")}], "version"))
        out.append(base([{"op": "ins", "pos": 1, "bytes": list(b"5555555")}], "version"))
        out.append(base([{"op": "append", "bytes": list(b":")}], "append"))
        out.append(base([{"op": "append", "bytes": list(b":0123456789abcdefghijklmnopqrstuv:4294967296")}], "append"))
        out.append(base([{"op": "append", "bytes": list(b":0123456789abcdefghijklmnopqrstuv:007")}], "append"))
        out.append(base([{"op": "append", "bytes": list(b":0123456789abcdefghijklmnopqrstuv:+7")}], "append"))
        out.append(base([{"op": "append", "bytes": list(b":0123456789abcdefghijklmnopqrstuv:")}], "append"))
        out.append(base([{"op": "append", "bytes": list(b"\n")}], "append"))
        out.append(base([{"op": "trunc", "n": 100000}], "empty"))
    return out


REG_CHUNKS = [[1, 2, 3, 4, 5], [9, 9, 9, 9, 9, 9, 9, 9, 10], [7, 7]]      # the file of Proofs.w_file (isz = 104)


def regression_cases():
    """The witnesses of the repaired findings; run first on every run (tier and seed independent)."""
    out = []
    def t(muts, reg):
        c = tcase(REG_CHUNKS, muts, label="regression")
        c["reg"] = reg
        out.append(c)
    for v in (2, 0, 3):
        t([{"op": "set", "pos": -68, "bytes": be32(v)}], "length-lt-checksum-size")
    t([{"op": "set", "pos": -68 + 4, "bytes": be32(0)}, {"op": "set", "pos": -68 + 8, "bytes": be32(1)}], "length-lt-checksum-size")
    t([{"op": "set", "pos": -104 + 20, "bytes": be32(9)}], "ordinal-ge-count")
    t([{"op": "set", "pos": -104 + 12 * i + 8, "bytes": be32(9)} for i in range(3)], "ordinal-ge-count")
    t([{"op": "set", "pos": -104 + 12 * i + 8, "bytes": be32(3)} for i in range(3)], "ordinal-ge-count")
    t([{"op": "set", "pos": -104 + 12 * i + 8, "bytes": be32(4)} for i in range(3)], "ordinal-ge-count")
    t([{"op": "set", "pos": -68, "bytes": be32(5242882)}], "length-gt-iterate-buffer")
    t([{"op": "set", "pos": -60, "bytes": be32(4194305)}], "length-gt-iterate-buffer")
    base = [{"t": "chunk", "data": [1, 2, 3]}]
    for body in ([2, 1], [2] + [7] * 19, [4, 1, 2, 3], [4] + [1] * 7, [1], [1, 2], [1, 2, 2] + [5] * 19):
        for recs in (base + [{"t": "crcraw", "data": body}],
                     [{"t": "crcraw", "data": body}],
                     base + [{"t": "raw", "data": [0, 0, 0, 9, 1, 2, 3, 4, 5]}, {"t": "root", "data": [4] * 20}, {"t": "crcraw", "data": body}, {"t": "raw", "data": [0] * 48}]):
            c = jcase(recs, [], "regression")
            c["reg"] = "journal-short-field"
            out.append(c)
    import random as _r
    for pos, v in ((44 + 0, 32), (44 + 31, 32), (44 + 5, 128), (44 + 10, 160)):
        c = mcase(_r.Random(7), 1, [{"op": "xor", "pos": pos, "v": v}], "regression")
        c["reg"] = "manifest-bad-root"
        out.append(c)
    for extra in ([], [{"op": "del", "pos": 77, "n": 33}]):
        c = mcase(_r.Random(7), 1, [{"op": "set", "pos": 0, "bytes": [52]}] + extra + [{"op": "set", "pos": 50, "bytes": [90]}], "regression")
        c["reg"] = "manifest-bad-root"
        out.append(c)
    # fixed:e8df418 — archive chunk references, span offsets and footer counts
    AC = [[1, 2, 3, 4, 5, 6], [6, 5, 4, 3, 2, 1], [7, 7]]
    def a(muts, reg):
        c = acase(AC, muts, "regression", gm=True, extras=True)
        c["reg"] = reg
        out.append(c)
    for i in range(3):
        for v in (0, 4, 9, 0xFFFFFFFF):
            a([{"op": "aset", "reg": "refs", "pos": 8 * i + 4, "bytes": be32(v)}], "archive-chunk-ref")
    a([{"op": "aset", "reg": "refs", "pos": 0, "bytes": be32(1)}], "archive-chunk-ref")
    a([{"op": "aset", "reg": "refs", "pos": 0, "bytes": be32(7)}], "archive-chunk-ref")
    a([{"op": "aset", "reg": "spans", "pos": 0, "bytes": be64(0)}], "archive-span-length")
    a([{"op": "aset", "reg": "spans", "pos": 0, "bytes": be64(256)}], "archive-span-length")
    a([{"op": "aset", "reg": "spans", "pos": 8, "bytes": be64(1)}], "archive-span-length")
    a([{"op": "aset", "reg": "spans", "pos": 0, "bytes": [64, 0, 0, 0, 0, 0, 0, 12]}], "archive-span-length")
    a([{"op": "aset", "reg": "spans", "pos": 16, "bytes": be64(2 ** 40)}], "archive-span-length")
    for pos, v in ((8, 9), (8, 0xFFFFFFFF), (12, 0x80000000), (12, 2), (12, 4), (8, 2)):
        a([{"op": "aset", "reg": "footer", "pos": pos, "bytes": be32(v)}], "archive-footer-counts")
    for v in (0, 1, 2):
        a([{"op": "aset", "reg": "footer", "pos": 212, "bytes": [v]}], "archive-footer-counts")
    a([{"op": "aset", "reg": "footer", "pos": 0, "bytes": be64(10 ** 15)}], "archive-footer-counts")
    a([{"op": "aset", "reg": "footer", "pos": 16, "bytes": be32(0xFFFFFFF0)}], "archive-footer-counts")
    for i in range(3):
        c = scase("archive", [[rbytes(__import__("random").Random(5), 9) for _ in range(3)]], "archive",
                  [{"op": "aset", "reg": "refs", "pos": 8 * i + 4, "bytes": be32(0)}], "regression")
        c["batches"] = [[[1, 2, 3, 4, 5, 6, 7, 8, 9], [9, 8, 7, 6, 5, 4, 3, 2, 1], [5, 5, 5, 5, 5, 5, 5, 5, 5]]]
        c["reg"] = "archive-chunk-ref"
        out.append(c)
    for c in out:
        if c["k"] == "table":
            c["gm"] = True
    return out


def rcase(chunks, muts, shorts, label="", cnt=-1):
    return {"k": "resolve", "chunks": chunks, "cnt": cnt, "muts": muts, "shorts": shorts, "label": label}


ABSENT_SHORTS = [{"raw": list(b"v")}, {"raw": list(b"0")}, {"raw": list(b"vvvvvvvvvvvvvvv")}, {"raw": list(b"0000000000000")}, {"raw": list(b"g5")}, {"raw": []},
                 {"raw": list(b"0123456789abcdefghijklmnopqrstuv")}]


def resolve_cases(rng, tier):
    """ResolveShortHash: short (< 13) and long (>= 13) prefixes of present hashes incl. the LAST index tuple, absent prefixes, corrupt ordinals."""
    out = []
    quick = tier == "quick"
    for c in ((1, 3) if quick else (1, 2, 3, 4, 6)):
        chunks = table_base(rng, c)
        isz = 28 * c + 20
        present = []
        for j in range(c):
            for n in ((1, 5, 12, 13, 20, 32) if not quick else (rng.choice([1, 2, 4, 12]), rng.choice([13, 20, 32]))):
                present.append({"tuple": j, "n": n})
        present.append({"tuple": -1, "n": 13})
        present.append({"tuple": -1, "n": 14})
        shorts = present + (ABSENT_SHORTS if not quick else rng.sample(ABSENT_SHORTS, 4))
        out.append(rcase(chunks, [], shorts, "resolve-pristine"))
        for i in range(c):
            for v in (c, c + 1, 0xFFFFFFFF, (i + 1) % c):
                out.append(rcase(chunks, [{"op": "set", "pos": -isz + 12 * i + 8, "bytes": be32(v)}], shorts, "resolve-ordinal"))
        out.append(rcase(chunks, [{"op": "set", "pos": -isz + 12 * i + 8, "bytes": be32(c + 5)} for i in range(c)], shorts, "resolve-ordinal"))
        for _ in range(4 if quick else 40):
            out.append(rcase(chunks, [{"op": "xor", "pos": -rng.randint(21, isz), "v": rng.choice(FLIPS)}], shorts, "resolve-flip"))
        out.append(rcase(chunks, [{"op": "set", "pos": -isz, "bytes": [255] * 8}], shorts, "resolve-prefix"))
        out.append(rcase(chunks, [], shorts, "resolve-count", cnt=c + 1))
    return out


def acase(chunks, muts, label, gm=False, extras=False):
    return {"k": "archive", "chunks": chunks, "absent": [[1, 2, 3]], "cnt": -1, "muts": muts, "label": label, "gm": gm, "extras": extras}


def be64(v):
    return [(v >> (8 * i)) & 255 for i in range(7, -1, -1)]


def archive_cases(rng, tier):
    """Archives written by the real stream writer (snappy chunks only at these sizes: byte span i+1 = chunk i's record)."""
    out = []
    quick = tier == "quick"
    for c in ((3,) if quick else (1, 2, 3, 5)):
        chunks = table_base(rng, c, same=True)
        A = lambda muts, label, **kw: out.append(acase(chunks, muts, label, **kw))
        A([], "a-pristine", gm=True, extras=True)
        # chunk references (dict id, data id) at refs + 8*i
        for i in range(c):
            for v in ((0, c + 1, (i + 1) % c + 1) if quick else (0, c + 1, c + 2, 0xFFFFFFFF, (i + 1) % c + 1)):
                A([{"op": "aset", "reg": "refs", "pos": 8 * i + 4, "bytes": be32(v)}], "a-ref-data", extras=(i == 0))
            A([{"op": "aset", "reg": "refs", "pos": 8 * i, "bytes": be32(1)}], "a-ref-dict")
        if c >= 2:
            A([{"op": "aswaprefs", "i": 0, "j": 1}], "a-ref-swap", gm=True, extras=True)
        # span offsets (uint64 each): equal neighbours (zero length), decreasing (length wraps >= 2^63), low-byte flips
        A([{"op": "aset", "reg": "spans", "pos": 0, "bytes": be64(0)}], "a-span", extras=True)
        A([{"op": "aset", "reg": "spans", "pos": 0, "bytes": be64(60000)}], "a-span")
        if c >= 2:
            A([{"op": "aset", "reg": "spans", "pos": 8, "bytes": be64(1)}], "a-span")
        for _ in range(3 if quick else 20):
            A([{"op": "axor", "reg": "spans", "pos": 8 * rng.randrange(c) + rng.choice([6, 7]), "v": rng.choice(FLIPS)}], "a-span-flip")
        # prefixes / suffixes
        A([{"op": "aset", "reg": "prefixes", "pos": 0, "bytes": [255] * 8}], "a-prefix", extras=True)
        A([{"op": "aset", "reg": "prefixes", "pos": 8 * (c - 1), "bytes": [0] * 8}], "a-prefix")
        for _ in range(4 if quick else 30):
            A([{"op": "axor", "reg": "prefixes", "pos": rng.randrange(8 * c), "v": rng.choice(FLIPS)}], "a-prefix-flip")
        for _ in range(4 if quick else 30):
            A([{"op": "axor", "reg": "suffixes", "pos": rng.randrange(12 * c), "v": rng.choice(FLIPS)}], "a-suffix-flip", extras=quick is False)
        # footer: index length(8) spans(4) chunks(4) meta(4) checksums(192) version(1) signature(7)
        # versions < 3 have a 216-byte footer: every index section is read 4 bytes off (slow: see a-footer-count below)
        for v in (0, 1, 2, 4, 255):
            A([{"op": "aset", "reg": "footer", "pos": 212, "bytes": [v]}], "a-version")
        A([{"op": "axor", "reg": "footer", "pos": 215, "v": 1}], "a-signature")
        A([{"op": "aset", "reg": "footer", "pos": 12, "bytes": be32(c - 1)}], "a-footer-count")
        A([{"op": "aset", "reg": "footer", "pos": 8, "bytes": be32(c - 1)}], "a-footer-count")
        A([{"op": "aset", "reg": "footer", "pos": 12, "bytes": be32(0x80000000)}], "a-footer-huge")
        A([{"op": "aset", "reg": "footer", "pos": 8, "bytes": be32(0xFFFFFFFF)}], "a-footer-huge")
        A([{"op": "aset", "reg": "footer", "pos": 0, "bytes": be64(10 ** 15)}], "a-footer-isz")
        A([{"op": "aset", "reg": "footer", "pos": 16, "bytes": be32(0xFFFFFFF0)}], "a-footer-meta")
        for _ in range(3 if quick else 40):
            A([{"op": "axor", "reg": "footer", "pos": rng.choice([7, 11, 15, 19] + list(range(20, 212))), "v": rng.choice(FLIPS)}], "a-footer-flip")
        if True:
            # counts that disagree with the index size
            A([{"op": "aset", "reg": "footer", "pos": 8, "bytes": be32(c + 6)}], "a-footer-count", extras=True)
            A([{"op": "aset", "reg": "footer", "pos": 12, "bytes": be32(c + 1)}], "a-footer-count")
        for n in ((1, 7, 8, 220, 221, 300) if quick else range(1, 330, 3)):
            A([{"op": "trunc", "n": n}], "a-trunc")
        for _ in range(3 if quick else 30):
            A([{"op": "xor", "pos": rng.randrange(0, 12 * c), "v": rng.choice(FLIPS)}], "a-data-flip")
        A([{"op": "append", "bytes": rbytes(rng, 9)}], "a-append")
    return out


def scase(layout, batches, target, muts, label, targetn=0):
    return {"k": "store", "layout": layout, "batches": batches, "absent": [[9, 9, 9]], "target": target, "targetn": targetn,
            "muts": muts, "label": label, "gm": True}


def store_cases(rng, tier):
    """A real database directory; one file corrupted; opened through NewLocalStore / NewLocalJournalingStore (oracle only)."""
    out = []
    quick = tier == "quick"
    n = 1 if quick else 8
    b2 = [[rbytes(rng, rng.randint(3, 20)) for _ in range(2)], [rbytes(rng, rng.randint(3, 20)) for _ in range(2)]]
    b1 = [[rbytes(rng, 9) for _ in range(3)]]
    flip = lambda lo, hi: {"op": "xor", "pos": rng.randrange(lo, hi), "v": rng.choice(FLIPS)}
    for layout, batches in (("table", b2), ("journal", b2), ("archive", b1)):
        out.append(scase(layout, batches, "manifest", [], "s-pristine"))
        for _ in range(4 * n):
            out.append(scase(layout, batches, "manifest", [flip(0, 150)], "s-manifest"))
        out.append(scase(layout, batches, "manifest", [{"op": "trunc", "n": rng.randint(1, 60)}], "s-manifest"))
        out.append(scase(layout, batches, "manifest", [{"op": "xor", "pos": 50, "v": 128}], "s-manifest-root"))
    for _ in range(5 * n):
        out.append(scase("table", b2, "table", [flip(-90, -1)], "s-table", targetn=rng.randrange(2)))
    for _ in range(2 * n):
        out.append(scase("table", b2, "table", [flip(0, 40)], "s-table", targetn=rng.randrange(2)))
    out.append(scase("table", b2, "table", [{"op": "trunc", "n": rng.randint(1, 80)}], "s-table"))
    out.append(scase("table", b2, "table", [{"op": "trunc", "n": 100000}], "s-table"))
    for _ in range(6 * n):
        out.append(scase("journal", b2, "journal", [flip(0, 250)], "s-journal"))
    for k in (1, 5, 30, 60):
        out.append(scase("journal", b2, "journal", [{"op": "trunc", "n": k}], "s-journal-trunc"))
    out.append(scase("journal", b2, "journal", [{"op": "append", "bytes": rbytes(rng, 40)}], "s-journal"))
    out.append(scase("journal", b2, "journal", [{"op": "set", "pos": 0, "bytes": [0, 0, 0, 10, 2, 1]}], "s-journal"))
    for _ in range(4 * n):
        out.append(scase("journal", b2, "idx", [flip(0, 120)], "s-idx"))
    out.append(scase("journal", b2, "idx", [{"op": "trunc", "n": rng.randint(1, 30)}], "s-idx"))
    for i in range(3):
        out.append(scase("archive", b1, "archive", [{"op": "aset", "reg": "refs", "pos": 8 * i + 4, "bytes": be32(rng.choice([0, 7, (i + 1) % 3 + 1]))}], "s-archive"))
    out.append(scase("archive", b1, "archive", [{"op": "aset", "reg": "spans", "pos": 8, "bytes": be64(1)}], "s-archive"))
    for _ in range(3 * n):
        out.append(scase("archive", b1, "archive", [{"op": "axor", "reg": rng.choice(["prefixes", "suffixes", "refs"]), "pos": rng.randrange(24), "v": rng.choice(FLIPS)}], "s-archive"))
    out.append(scase("archive", b1, "archive", [{"op": "aset", "reg": "footer", "pos": 212, "bytes": [9]}], "s-archive"))
    return out


def gen_cases(rng, tier):
    reg = regression_cases()
    # fixed:a794b79 — ordinal > count reached hashAt; a >= 13 character prefix of the last tuple scanned past count on a valid file
    r1 = rcase(REG_CHUNKS, [{"op": "set", "pos": -104 + 12 * i + 8, "bytes": be32(9)} for i in range(3)],
               [{"raw": list(b"1")}, {"tuple": 0, "n": 13}, {"tuple": 1, "n": 3}], "regression")
    r2 = rcase(REG_CHUNKS, [], [{"tuple": -1, "n": 13}, {"tuple": -1, "n": 32}, {"tuple": 0, "n": 13}], "regression")
    for r in (r1, r2):
        r["reg"] = "resolve-short-hash"
    return reg + [r1, r2] + gen_cases_random(rng, tier) + resolve_cases(rng, tier) + archive_cases(rng, tier) + store_cases(rng, tier)


def gen_cases_random(rng, tier):
    tc = table_cases(rng, tier)
    for i, c in enumerate(tc):
        # getMany runs on errgroup goroutines: a panic there costs a worker restart (~1 s); quick runs it on a third of the cases
        c["gm"] = tier != "quick" or i % 3 == 0 or c["label"] in ("pristine", "swaprec")
        c["extras"] = tier != "quick" or i % 4 == 1 or c["label"] in ("pristine", "swaprec")
    return tc + journal_cases(rng, tier) + manifest_cases(rng, tier)


# ----------------------------------------------------------------------------------------------
# Coq terms
# ----------------------------------------------------------------------------------------------
HAS = {"f": 0, "t": 1, "panic": 2, "err": 3}
GET = {"absent": 0, "ok": 1, "bad": 2, "eof": 3, "crc": 3, "empty": 3, "err": 3, "panic": 4, "snappy": 5}
ITER = {"ok": 0, "bad": 1, "err": 2, "panic": 3, "skip": 4}
GM = {"ok": 0, "bad": 1, "err": 2, "crash": 3, "skip": 4}
CLASS = {"ok": 0, "err": 1, "panic": 2, "dataloss": 3}


def _obs(open_=0, res="[]", it=4, itn=0, gm=4, cl=0, recs="[]", off=0, man="None", extra=()):
    return ("{| o_open := %d; o_res := %s; o_iter := %d; o_itern := %d; o_gm := %d; o_class := %d; o_recs := %s; o_off := %d; o_man := %s; o_extra := %s |}"
            % (open_, res, it, itn, gm, cl, recs, off, man, cq_list(str(int(x)) for x in extra)))


def b32decode(sx):
    v = 0
    for ch in sx:
        v = v * 32 + B32.index(ord(ch))
    return v.to_bytes(20, "big")


def coq_case(case, out):
    o = out.get("obs")
    k = case["k"]
    crashed = o is None or "crash" in o
    if crashed:
        # whole-worker crash / harness failure: an observation no model agrees with and the oracle rejects
        if k in ("table", "resolve", "archive"):
            return "(ITable [] 0 [], %s)" % _obs(open_=2)
        if k == "store":
            return "(IStore 0, %s)" % _obs(open_=2)
        return "(%s [], %s)" % ("IJournal" if k == "journal" else "IManifest", _obs(cl=2))
    if k == "resolve":
        inp = "IResolve %s %d %s" % (cq_bytes(o["bytes"]), o["cnt"], cq_list(cq_bytes(x) for x in (o["shorts"] or [])))
        op = {"ok": 0, "err": 1, "panic": 2}[o["open"]]
        recs = cq_list("(0, %d, %s, %d)" % ({"ok": 0, "err": 1, "panic": 2}[r["code"]],
                                            cq_bytes(b"".join(b32decode(x) for x in (r["res"] or []))), len(r["res"] or []))
                       for r in (o["resolve"] or []))
        return "(%s, %s)" % (inp, _obs(open_=op, recs=recs))
    if k in ("table", "archive"):
        if k == "table":
            inp = "ITable %s %d %s" % (cq_bytes(o["bytes"]), o["cnt"], cq_list(cq_bytes(a) for a in o["addrs"]))
        else:
            inp = "IArchive %s %s" % (cq_bytes(o["bytes"]), cq_list(cq_bytes(a) for a in o["addrs"]))
        op = {"ok": 0, "err": 1, "panic": 2}[o["open"]]
        res = cq_list("(%d, %d)" % (HAS[r["has"]], GET[r["get"]]) for r in o["res"])
        return "(%s, %s)" % (inp, _obs(open_=op, res=res, it=ITER[o["iter"]], itn=o["itern"], gm=GM[o["getmany"]], extra=o.get("extra") or ()))
    if k == "store":
        op = {"ok": 0, "err": 1, "panic": 2, "notarget": 5}[o["open"]]
        return "(IStore %d, %s)" % (op, _obs(open_=op, gm=GM[o["getmany"]], extra=o.get("extra") or ()))
    if k == "journal":
        recs = cq_list("(%d, %d, %s, %d)" % (r["off"], r["kind"], cq_bytes(r["addr"]), r["plen"]) for r in (o["recs"] or []))
        return "(IJournal %s, %s)" % (cq_bytes(o["bytes"]), _obs(cl=CLASS[o["class"]], recs=recs, off=o["off"]))
    man = "None"
    if o["class"] == "ok":
        vers = int(bytes(o["vers"]).decode())
        gc = o["gcgen"] if vers == 5 else []
        man = "(Some (%d, %s, %s, %s, %s, %s))" % (vers, cq_bytes(o["nbf"]), cq_bytes(o["lock"]), cq_bytes(o["root"]), cq_bytes(gc),
                                                    cq_list("(%s, %d)" % (cq_bytes(s["name"]), s["cnt"]) for s in (o["specs"] or [])))
    return "(IManifest %s, %s)" % (cq_bytes(o["bytes"]), _obs(cl=CLASS[o["class"]], man=man))


# ----------------------------------------------------------------------------------------------
# classification / known findings
# ----------------------------------------------------------------------------------------------
def _u32(b, p):
    return (b[p] << 24) | (b[p + 1] << 16) | (b[p + 2] << 8) | b[p + 3]


def index_facts(o):
    """(lengths, ordinals) of the corrupted file as the reader sees them, or None when it does not open."""
    b, c = o["bytes"], o["cnt"]
    isz = 28 * c + 20
    if o.get("open") != "ok" or len(b) < isz:
        return None
    s = len(b) - isz
    return ([_u32(b, s + 12 * c + 4 * i) for i in range(c)], [_u32(b, s + 12 * i + 8) for i in range(c)])


def evidence(case, out):
    """List of (kind, message) for everything in the observation that violates the property."""
    o = out.get("obs")
    if o is None:
        return [("harness", str(out.get("err") or out.get("panic") or ""))]
    if "crash" in o:
        return [("crash", o["crash"])]
    ev = []
    for d in o.get("detail") or []:
        if not d.startswith("open: ") or o.get("open") == "panic":
            ev.append(("panic", d))
    if o.get("getmany") == "crash":
        ev.append(("panic", "getmany: " + (o.get("crashmsg") or "")))
    if o.get("k") in ("table", "archive"):
        if any(r["get"] == "bad" for r in o["res"]) or o.get("getmany") == "bad":
            ev.append(("misread", "get"))
        elif o.get("iter") == "bad" or 1 in (o.get("extra") or []):
            ev.append(("misread", "iter"))
    if o.get("k") == "store":
        if 1 in (o.get("extra") or []) or o.get("getmany") == "bad":
            ev.append(("misread", "get"))
    return ev


def attribute(case, out, kind, msg):
    """The OPEN known-finding key a piece of evidence belongs to, or None.  Table/journal/manifest panics belong to none."""
    o = out.get("obs") or {}
    k = case["k"]
    is_archive = k == "archive" or (k == "store" and case.get("layout") == "archive" and case.get("target") == "archive")
    if k == "table" and kind == "misread":
        if any(m["op"] in ("swaprec", "cprec") for m in case["muts"]):
            return KEY_SWAP
        if msg == "iter":
            return KEY_ITER                   # only iteration / extract mislabel: they take the address from the (unchecksummed) index
        return None
    if is_archive and kind == "misread":
        return KEY_A_SWAP if msg == "get" else KEY_A_ITER
    return None


def match_known(finding, case, out):
    """True iff every violating element of this observation belongs to an OPEN known finding and this finding is one of them."""
    open_keys = {f["key"] for f in vlib.load_known(ID) if str(f.get("status", "")).startswith("open")}
    ev = evidence(case, out)
    if not ev:
        return False
    keys = set()
    for kind, msg in ev:
        key = attribute(case, out, kind, msg)
        if key is None or key not in open_keys:
            return False
        keys.add(key)
    return finding.get("key") in keys


def classify(case, out):
    o = out.get("obs")
    k = case["k"]
    t = [k, "mut:" + (case.get("label") or "none")]
    if case.get("reg"):
        t.append("reg:" + case["reg"])
    if o is None or "crash" in o:
        return t + ["worker-crash"]
    if k == "archive":
        t.append("a-open-" + o["open"])
        gets = [r["get"] for r in o["res"]]
        if "panic" in gets:
            t.append("a-get-panic")
        if "bad" in gets:
            t.append("a-misread")
            if "panic" not in gets and o["iter"] != "panic" and case.get("label") == "a-ref-swap":
                t.append("a-ref-swap-clean")
        if any(g in ("eof", "crc", "empty", "err", "snappy") for g in gets):
            t.append("a-get-err")
        if "ok" in gets:
            t.append("a-get-ok")
        t.append("a-iter-" + o["iter"])
        if 3 in (o.get("extra") or []):
            t.append("a-extras-crash")
        if o["getmany"] in ("crash", "err", "ok"):
            t.append("a-gm-" + o["getmany"])
        for kind, msg in evidence(case, out):
            t.append("finding:" + (attribute(case, out, kind, msg) or "UNATTRIBUTED"))
    elif k == "store":
        t.append("s-%s-%s" % (case["layout"], case["target"]))
        t.append("s-open-" + o["open"])
        ex = o.get("extra") or []
        if 2 in ex:
            t.append("s-op-err")
        if ex and all(x == 0 for x in ex):
            t.append("s-all-ok")
        for kind, msg in evidence(case, out):
            t.append("finding:" + (attribute(case, out, kind, msg) or "UNATTRIBUTED"))
    elif k == "table":
        if "extraops" in o and o["extraops"]:
            t.append("t-extras")
        if not case["muts"] and case["cnt"] < 0:
            t.append("t-pristine")
        t.append("t-open-" + o["open"])
        gets = [r["get"] for r in o["res"]]
        hass = [r["has"] for r in o["res"]]
        if any(g in ("eof", "crc", "empty", "err", "snappy") for g in gets):
            t.append("t-get-err")
        if "panic" in gets:
            t.append("t-get-panic")
        if "panic" in hass:
            t.append("t-has-panic")
        if "err" in hass:
            t.append("t-has-err")
        if "absent" in gets[:len(case["chunks"])]:
            t.append("t-absent")
        if "bad" in gets:
            t.append("t-misread")
        if o["iter"] == "bad" and "bad" not in gets:
            t.append("t-iter-mislabel")
        if o["iter"] == "panic":
            t.append("t-iter-panic")
        if o["iter"] == "err":
            t.append("t-iter-err")
        if o["getmany"] == "crash":
            t.append("t-gm-crash")
        if o["getmany"] == "err":
            t.append("t-gm-err")
        for kind, msg in evidence(case, out):
            key = attribute(case, out, kind, msg)
            t.append("finding:" + (key or "UNATTRIBUTED"))
    elif k == "resolve":
        t.append("r-open-" + o["open"])
        for spec, r in zip(case["shorts"], o.get("resolve") or []):
            n = len(spec["raw"]) if spec.get("raw") is not None else spec["n"]
            t.append("r-%s-%s" % ("long" if n >= 13 else "short", r["code"]))
            if r["code"] == "ok":
                t.append("r-found" if r["res"] else "r-none")
            if spec.get("raw") is None and spec["tuple"] == -1 and n >= 13 and not case["muts"] and r["code"] == "ok" and r["res"]:
                t.append("r-last-tuple-long")
        for kind, msg in evidence(case, out):
            t.append("finding:" + (attribute(case, out, kind, msg) or "UNATTRIBUTED"))
    elif k == "journal":
        t.append("j-" + o["class"])
        if o["class"] == "ok" and case["muts"] and case["muts"][0]["op"] == "trunc":
            t.append("j-truncated")
        for kind, msg in evidence(case, out):
            t.append("finding:" + (attribute(case, out, kind, msg) or "UNATTRIBUTED"))
    else:
        t.append("m-" + o["class"])
        for kind, msg in evidence(case, out):
            t.append("finding:" + (attribute(case, out, kind, msg) or "UNATTRIBUTED"))
    return sorted(set(t))


def nontrivial(case, out):
    return True


def shrink_candidates(case):
    m = case["muts"]
    for i in range(len(m)):
        c = dict(case)
        c["muts"] = m[:i] + m[i + 1:]
        yield c
    if case["k"] == "table" and len(case["chunks"]) > 1 and not m:
        c = dict(case)
        c["chunks"] = case["chunks"][:-1]
        yield c


def neighbours(case, rng):
    out = []
    for _ in range(60):
        c = dict(case)
        c["muts"] = list(case["muts"]) + [{"op": "xor", "pos": -rng.randint(1, 150), "v": rng.choice(FLIPS)}]
        out.append(c)
    return out


def search_cases(rng):
    return table_cases(rng, "quick")[:400]
