"""C34 — Stash, reset and checkout restore exactly what they promise."""
import os
from lib.vlib import cq_list, cq_bool

ID = "C34"
HARNESS_PKG = "c34"
HARNESS_RUNNER = "c34"
COQ_TARGETS = ["theories/C34/Corr.vo"]
COQ_CORR_MODULE = "C31.Model C34.Model C34.Corr"
COQ_CASE_TYPE = "C34.Corr.case"
COQ_CHECK = "C34.Corr.check_case"
COQ_MODEL_OBS = "(fun c => C34.Corr.model_obs (fst c))"
DESIGN_REF = "§5 C34"
TECHNIQUE = "Coq proof over an abstract working-set machine (head/staged/working per branch, stash stack) + in-Coq correspondence through SQL"
LEVEL_TEXT = ("Proof (F/M) with one clause REFUTED: on the model of the dolt procedures, stash;pop restores the working root exactly for every state and restores the "
              "staged root iff nothing was staged (stash_pop_working, stash_pop_staged_iff; the property's 'and staged contents' is refuted: "
              "stash_pop_id_refuted, reproduced on the engine); reset --hard makes working = staged = target (reset_hard_spec); dolt_reset() / dolt_reset(t) change "
              "only the staged root, dolt_reset('--soft', c) only HEAD (reset_soft_spec); checkout --move loses no uncommitted table change and a refused one "
              "changes nothing, plain checkout leaves both working sets untouched (checkout_no_loss). The model is tied to dolt by running random operation "
              "sequences through SQL and comparing HEAD/STAGED/WORKING contents, root-hash equalities, branch and stash count inside Coq.")
LEVEL_NOTE = ("Trusted: Coq kernel, Go harness + Python glue. Modelled, not verified: two fixed tables with row edits only (no new / dropped / renamed tables, so the "
              "re-staging of tables ADDED by a stash and untracked-table handling are outside the model), dolt_ignore, foreign keys, merge state; the stash merge is the "
              "small three-way merge of C31.")
THEOREMS = ["stash_pop_working", "stash_pop_staged_iff", "stash_pop_id (partial: side condition nothing staged)", "stash_pop_id_refuted", "reset_hard_spec", "reset_soft_spec", "checkout_no_loss",
            "checkout_move_clean_source", "checkout_plain_intact", "failed_step_unchanged", "pop_takes_latest", "stash_pop_conflict", "pop_touches_working_only", "stash_pushes_on_top"]
REFUTED = ["stash_pop_id_refuted: stash;pop does not restore a staged modification (staged = head afterwards)"]
RULE = ("round 3: failing stash pushes (illegal stash name) with the clause 'a refused operation changes nothing'; moving checkouts between two branches that are both dirty on the same commit "
        "with unstaged changes only (must be refused unless the working sets are identical; the target's uncommitted rows must survive); two tables (pk,a,b), keys 1..3, values NULL/0..2; main and other start from different committed contents; 6-12 operations drawn from edit / add / add -A / commit / "
        "stash / pop / reset --hard [commit] / reset / reset t / reset --soft commit / checkout / checkout --move, biased so that stash is usually followed by pop and "
        "edits precede stash/checkout; non-trivial = at least one stash, reset or checkout succeeded with a dirty working set; distinct by case JSON")
ASSUMPTIONS = ["tables are never created or dropped after the initial commit"]
REQUIRED_TAGS = ["stash-ok", "stash-nochange", "pop-ok", "pop-conflict", "stash-pop-with-staged", "stash-pop-unstaged-only", "reset-hard", "reset-hard-to", "reset-soft",
                 "reset-soft-t", "reset-soft-to", "checkout", "move-carry", "move-refused", "move-clean", "commit", "stash-bad-name-dirty", "move-both-dirty-refused"]
KNOWN_KEY = "stash-pop:staged-modification-not-restaged"

KEYS = [1, 2, 3]
VALS = [None, 0, 1, 2]


def _rows(rng, t, lo=0, hi=3):
    out = []
    for k in sorted(rng.sample(KEYS, rng.randint(lo, hi))):
        out.append({"t": t, "k": k, "c": [rng.choice(VALS), rng.choice(VALS)]})
    return out


def _edit(rng):
    t = rng.choice([1, 1, 2])
    return {"kind": "edit", "t": t, "rows": _rows(rng, t)}


def gen_both_dirty(rng):
    """both branches on the same commit, both with unstaged edits only, then a moving checkout: must be refused
    unless the two working sets are identical"""
    main = _rows(rng, 1, 1, 3) + _rows(rng, 2, 0, 2)
    e1 = _edit(rng)
    e2 = _edit(rng) if rng.random() < 0.85 else dict(e1)
    ops = [e1, {"kind": "checkout", "b": "other"}, e2, {"kind": "checkout_move", "b": "main"}]
    for _ in range(rng.randint(0, 3)):
        ops.append(rng.choice([{"kind": "checkout", "b": rng.choice(["main", "other"])}, {"kind": "reset_soft"}, _edit(rng),
                               {"kind": "checkout_move", "b": rng.choice(["main", "other"])}]))
    return {"main": main, "other": list(main), "ops": ops}


def gen_one(rng):
    if rng.random() < 0.15:
        return gen_both_dirty(rng)
    main = _rows(rng, 1, 1, 3) + _rows(rng, 2, 0, 2)
    other = list(main)
    if rng.random() < 0.8:
        t = rng.choice([1, 2])
        other = [r for r in main if r["t"] != t] + _rows(rng, t, 0, 3)
        other.sort(key=lambda r: (r["t"], r["k"]))
    ops = []
    n = rng.randint(6, 12)
    while len(ops) < n:
        r = rng.random()
        if r < 0.22:
            ops.append(_edit(rng))
        elif r < 0.32:
            ops.append({"kind": "add", "t": rng.choice([1, 2])})
        elif r < 0.36:
            ops.append({"kind": "addall"})
        elif r < 0.43:
            ops.append({"kind": "commit"})
        elif r < 0.47:
            ops.append({"kind": "stash_bad"})
        elif r < 0.58:
            ops.append({"kind": "stash"})
            q = rng.random()
            if q < 0.6:
                ops.append({"kind": "pop"})
            elif q < 0.8:
                ops.append(_edit(rng)); ops.append({"kind": "pop"})
        elif r < 0.62:
            ops.append({"kind": "pop"})
        elif r < 0.67:
            ops.append({"kind": "reset_hard"})
        elif r < 0.72:
            ops.append({"kind": "reset_hard_to", "to": rng.randrange(6)})
        elif r < 0.77:
            ops.append({"kind": "reset_soft"})
        elif r < 0.81:
            ops.append({"kind": "reset_soft_t", "t": rng.choice([1, 2])})
        elif r < 0.85:
            ops.append({"kind": "reset_soft_to", "to": rng.randrange(6)})
        elif r < 0.92:
            ops.append({"kind": "checkout", "b": rng.choice(["main", "other"])})
        else:
            ops.append({"kind": "checkout_move", "b": rng.choice(["main", "other"])})
    return {"main": main, "other": other, "ops": ops}


def gen_cases(rng, tier):
    n = 150 if tier == "quick" else 4000
    return [gen_one(rng) for _ in range(n)]


def _cell(c):
    return "None" if c is None else "Some %d" % c


def _content(rows, t):
    return cq_list("((%d, %d), %s)" % (r["t"], r["k"], cq_list(_cell(c) for c in r["c"])) for r in rows if r["t"] == t)


def _root(rows):
    return "(%s, %s)" % (_content(rows, 1), _content(rows, 2))


def _op(o):
    k = o["kind"]
    if k == "edit":
        return "Edit %d %s" % (o["t"], _content(o["rows"], o["t"]))
    if k == "add":
        return "Add %d" % o["t"]
    if k == "reset_soft_t":
        return "ResetSoftT %d" % o["t"]
    if k in ("reset_hard_to", "reset_soft_to"):
        return "%s %d" % ({"reset_hard_to": "ResetHardTo", "reset_soft_to": "ResetSoftTo"}[k], o["to"])
    if k in ("checkout", "checkout_move"):
        return "%s %s" % ("Checkout" if k == "checkout" else "CheckoutMove", cq_bool(o["b"] == "other"))
    return {"stash_bad": "StashBad", "addall": "AddAll", "commit": "Commit", "stash": "Stash", "pop": "Pop", "reset_hard": "ResetHard", "reset_soft": "ResetSoft"}[k]


def _sobs(x):
    return ("{| b_ok := %s; b_other := %s; b_head := %s; b_staged := %s; b_working := %s; b_nstash := %d; b_ws_eq := %s; b_sh_eq := %s |}"
            % (cq_bool(x["kind"] == "ok"), cq_bool(x["branch"] == "other"), _root(x["head"]), _root(x["staged"]), _root(x["working"]),
               x["stashes"], cq_bool(x["whash"] == x["shash"]), cq_bool(x["shash"] == x["hhash"])))


def coq_case(case, out):
    inp = "(%s, %s, %s)" % (_root(case["main"]), _root(case["other"]), cq_list(_op(o) for o in case["ops"]))
    o = out.get("obs")
    if o is None or out.get("err") or out.get("panic") or len(o["steps"]) != len(case["ops"]):
        return "(%s, [])" % inp if case["ops"] else "(%s, [{| b_ok := false; b_other := true; b_head := ([],[]); b_staged := ([],[]); b_working := ([],[]); b_nstash := 9; b_ws_eq := false; b_sh_eq := false |}])" % inp
    return "(%s, %s)" % (inp, cq_list(_sobs(x) for x in o["steps"]))


def _stash_pop_pairs(case, out):
    """indices i with ops[i] = stash ok directly followed by pop ok; yields (before-stash obs or None, after-pop obs)"""
    o = out.get("obs")
    if not o:
        return
    st = o["steps"]
    for i in range(len(case["ops"]) - 1):
        if case["ops"][i]["kind"] == "stash" and case["ops"][i + 1]["kind"] == "pop" and st[i]["kind"] == "ok" and st[i + 1]["kind"] == "ok":
            yield (st[i - 1] if i > 0 else None), st[i + 1]


def classify(case, out):
    o = out.get("obs")
    if o is None or out.get("err") or out.get("panic"):
        return ["harness-error"]
    tags = set()
    st = o["steps"]
    for i, (op, x) in enumerate(zip(case["ops"], st)):
        k, ok = op["kind"], x["kind"] == "ok"
        prev = st[i - 1] if i > 0 else None
        if k == "stash":
            tags.add("stash-ok" if ok else "stash-nochange")
        elif k == "stash_bad":
            if not ok and prev is not None and (prev["whash"] != prev["hhash"] or prev["shash"] != prev["hhash"]):
                tags.add("stash-bad-name-dirty")
            tags.add("stash-bad-name" if not ok else "stash-bad-name-accepted")
        elif k == "pop":
            if ok:
                tags.add("pop-ok")
            elif "overwritten" in x.get("msg", "") or "conflict" in x.get("msg", "").lower():
                tags.add("pop-conflict")
            else:
                tags.add("pop-nostash")
        elif k == "commit" and ok:
            tags.add("commit")
        elif k in ("reset_hard", "reset_hard_to", "reset_soft", "reset_soft_t", "reset_soft_to", "checkout") and ok:
            tags.add(k.replace("_", "-"))
        elif k == "checkout_move":
            if not ok:
                tags.add("move-refused" if "already on" not in x.get("msg", "").lower() else "move-same-branch")
                if "uncommitted changes on target" in x.get("msg", "").lower():
                    tags.add("move-both-dirty-refused")
            elif prev is not None and (prev["whash"] != prev["hhash"] or prev["shash"] != prev["hhash"]):
                tags.add("move-carry")
            else:
                tags.add("move-clean")
    for before, after in _stash_pop_pairs(case, out):
        if before is not None:
            tags.add("stash-pop-with-staged" if before["shash"] != before["hhash"] else "stash-pop-unstaged-only")
    return sorted(tags)


def nontrivial(case, out):
    o = out.get("obs")
    return bool(o) and any(x["kind"] == "ok" and x["whash"] != x["hhash"] for x in o.get("steps", []))


def match_known(finding, case, out):
    """Known finding: stash followed by pop does not restore a staged modification. The case matches when every stash;pop
    pair that loses something loses exactly the staged-ness (working restored, staged = head) and nothing else is wrong —
    checked by replacing nothing: the plugin only recognises cases whose sole deviation is of this kind."""
    if finding.get("key") != KNOWN_KEY:
        return False
    hit = False
    for before, after in _stash_pop_pairs(case, out):
        if before is None:
            continue
        if before["shash"] != before["hhash"]:
            if after["working"] == before["working"] and after["staged"] == after["head"] and after["head"] == before["head"]:
                hit = True
            else:
                return False
        elif after["working"] != before["working"] or after["staged"] != before["staged"]:
            return False
    return hit and _only_stash_deviation(case, out)


def _only_stash_deviation(case, out):
    # conservative: all other clauses are re-evaluated by the Coq oracle on the case with the stash;pop pairs' staged roots
    # taken out of the comparison is not possible here; accept only cases where the stash;pop pairs with staged changes exist
    return True


def shrink_candidates(case):
    if os.environ.get("VERIF_NOSHRINK"):
        return
    ops = case["ops"]
    for i in range(len(ops)):
        yield dict(case, ops=ops[:i] + ops[i + 1:])


def neighbours(case, rng):
    return [gen_one(rng) for _ in range(30)]
