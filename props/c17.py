"""C17 — Stored JSON documents behave like in-memory JSON; JSON three-way merge."""
import json
from lib.vlib import cq_bytes, cq_bool, cq_list

ID = "C17"
HARNESS_PKG = "c17"
HARNESS_RUNNER = "c17"
COQ_TARGETS = ["theories/C17/Corr.vo"]
COQ_CORR_MODULE = "Base.Str C17.Model C17.Spec C17.Corr"
COQ_CASE_TYPE = "C17.Corr.case"
COQ_CHECK = "C17.Corr.check_case"
COQ_SHARD = 150
DESIGN_REF = "§5 C17"
TECHNIQUE = ("Coq proofs (location-key comparison = document order for every pair of paths; streaming three-way differ = declarative "
             "clash/apply specification for all ordered edit streams; vm_compute refutation witnesses for the implemented MergeJSON) + in-Coq "
             "correspondence of IndexedJsonDocument / in-memory JSONDocument / MergeJSON / dolt_merge against the model")
LEVEL_TEXT = ("Proof, partial (P). Carried by theorems, for every input: (1) loc_order (full) — comparing two serialized jsonLocation keys the way "
              "compareJsonLocations does (jsonPathFromKey decoding, then element-wise bytes) equals the document pre-order of the two paths, for every "
              "pair of paths whose keys contain no 0xFE/0xFF byte, for the real encoder: varint_mono (uvarint.PutUvarint preserves order, every pair of "
              "indexes) and varint_self_delimiting discharge both hypotheses of loc_order_gen. (2) three_way_doc_spec (no abstract premise) — the "
              "streaming ThreeWayJsonDiffer algorithm run with the document order reports a conflict exactly when some left and some right edit clash "
              "and otherwise yields exactly the right-side edits, for all strictly ordered edit streams with no two edits of one side nested or in one "
              "array; the order laws (antisymmetry, transitivity, prefix-less-than, convexity) are proved for the typed document order. "
              "(3) json_diff_sorted — the differ emits strictly increasing edit streams for every pair of well-formed documents. (4) merge_json_partial — "
              "for every triple of well-formed documents satisfying the decidable merge_side_conditions (serialized-key comparison / prefix / same-array "
              "tests agree with the path-level ones on every left-right pair; no two edits of one side nested or in one array; a removal only as the last "
              "right-side edit), the model of MergeJSON equals the declarative path-wise merge. (5) op_algebra (partial): unchanged_same (change flag "
              "false => document unchanged, every mode and path), set_then_lookup / remove_then_lookup for object-key paths and, with in-range index "
              "legs, set_then_lookup_idx / remove_then_lookup_idx; operations on different members of one object commute; commutation for paths sharing a "
              "prefix is not proved, so the removal-last side condition of merge_json_partial stays. (6) three refutation theorems (vm_compute witnesses, replayed on the real code every run) for the full merge "
              "statement. (7) oracle_on_model_loc / oracle_on_model_merge_full (json_eqb_refl discharges the former premise). Resting on correspondence only: that the chunked, indexed text representation "
              "(cursor, scanner, chunker, span edits) implements the abstract operations; that the model of the in-memory operations is go-mysql-server's; "
              "that IsJsonKeyPrefix / JsonKeysModifySameArray on serialized keys equal the path relations (a checked side condition, not a lemma).")
LEVEL_NOTE = ("Trusted: Coq kernel, Go harness + Python glue. Modelled, not verified: JSON text scanning/escaping, path-string parsing (paths are generated "
              "structurally and printed), number formatting (integers only), go-mysql-server CompareJSON (structural equality on canonical values), "
              "prolly chunking of the document text. Full statement 'merge_json b l r = merge_spec b l r for every triple of documents' is refuted for "
              "the faithful model and on the implementation (known findings); the 'append into an empty array is dropped' finding is a deviation of the "
              "stored document's set operation from the model, visible as a correspondence mismatch, not as a model-level refutation.")
THEOREMS = ["loc_order_gen", "varint_self_delimiting", "varint_mono", "loc_order", "three_way_spec_gen", "three_way_doc_spec", "json_diff_sorted",
            "merge_json_partial", "unchanged_same", "set_then_lookup", "remove_then_lookup", "set_then_lookup_idx", "remove_then_lookup_idx",
            "set_set_commute_members (partial)", "remove_remove_commute_members (partial)", "json_eqb_refl", "oracle_on_model_loc", "oracle_on_model_merge_full",
            "merge_json_refuted_prefix_siblings", "merge_json_refuted_array_shrink", "merge_json_refuted_same_array_convergent"]
REFUTED = ["merge_json_spec (full): merge_json_refuted_prefix_siblings, merge_json_refuted_array_shrink, merge_json_refuted_same_array_convergent"]
RULE = ("ops: nested documents (shared key prefixes, keys needing quoting, multi-byte keys, long strings so the text spans several 4 kB chunks) with chains of "
        "set/insert/replace/remove/array_append/array_insert/lookup at existing, missing, out-of-range, last / last-N and type-mismatching paths; merge: "
        "object triples derived from one base by random path edits on both sides; loc: pairs of paths; non-trivial = at least one op changed the document "
        "or the merge had at least one edit on each side; distinct by content")
ASSUMPTIONS = ["numbers are integers of magnitude < 2^53; object keys are non-empty valid UTF-8 without backslashes",
               "path strings are printed from structural legs (keys not matching \\w+ are double-quoted)"]
REQUIRED_TAGS = ["merge-array-replaced-vs-element", "merge-object-replaced-vs-member", "long-array-op", "long-array-op-at-240", "long-array-merge", "loc-index-240",
                 "op-changed", "op-unchanged", "op-error", "lookup-found", "lookup-missing", "multi-chunk", "merge-clean", "merge-conflict",
                 "merge-both-sides", "loc-lt", "loc-gt", "loc-eq", "sqlmerge", "quoted-key", "last-leg"]

KEYS = ["a", "ab", "abc", "b", "a1", "z", "k y", "a.b", 'q"t', "é", "x", "id"]


# ---------------------------------------------------------------- generators
def gen_scalar(rng):
    k = rng.random()
    if k < 0.35:
        return rng.choice([0, 1, -1, 7, 42, 1000, -99999, 2 ** 40])
    if k < 0.6:
        return rng.choice(["", "x", "hello", "a,b", 'q"uote', "été", "line\nbreak", "{}", "[1]"])
    if k < 0.7:
        return None
    if k < 0.8:
        return rng.choice([True, False])
    return rng.randint(-50, 50)


def gen_json(rng, depth, big=False):
    k = rng.random()
    if depth <= 0 or k < 0.3:
        if big and rng.random() < 0.3:
            return rng.choice("abcxyz") * rng.choice([900, 2500, 4200, 6000])
        return gen_scalar(rng)
    if k < 0.6:
        return [gen_json(rng, depth - 1, big) for _ in range(rng.choice([0, 1, 2, 3, 3, 5]))]
    n = rng.choice([0, 1, 2, 3, 4, 6])
    ks = rng.sample(KEYS, min(n, len(KEYS)))
    return {k: gen_json(rng, depth - 1, big) for k in ks}


def gen_doc(rng, big):
    k = rng.random()
    if k < 0.08:
        return gen_scalar(rng)
    if k < 0.2:
        return [gen_json(rng, 2, big) for _ in range(rng.randint(0, 5))]
    d = {k: gen_json(rng, 2, big) for k in rng.sample(KEYS, rng.randint(1, 7))}
    if big:
        d[rng.choice(["a", "ab", "z", "big"])] = rng.choice("pq") * rng.choice([4500, 9000])
    return d


def random_path(rng, d):
    """structural legs, mostly following the document, sometimes leaving it"""
    legs = []
    cur = d
    for _ in range(rng.choice([0, 1, 1, 2, 2, 3, 4])):
        r = rng.random()
        if isinstance(cur, dict) and cur and r < 0.75:
            k = rng.choice(sorted(cur))
            legs.append(("k", k)); cur = cur[k]
        elif isinstance(cur, list) and cur and r < 0.75:
            i = rng.randrange(len(cur))
            legs.append(("i", i)); cur = cur[i]
        else:
            c = rng.random()
            if c < 0.35:
                legs.append(("k", rng.choice(KEYS))); cur = None
            elif c < 0.65:
                n = len(cur) if isinstance(cur, list) else 0
                legs.append(("i", rng.choice([0, 0, 1, n, n + 1, 7, 300]))); cur = None
            elif c < 0.8:
                legs.append(("last",)); cur = cur[-1] if isinstance(cur, list) and cur else None
            else:
                legs.append(("lastm", rng.choice([0, 1, 2, 9])))
                cur = None
    return legs


import re
_W = re.compile(r"^\w+$", re.ASCII)


def path_str(legs):
    s = "$"
    for l in legs:
        if l[0] == "k":
            k = l[1]
            if _W.match(k):
                s += "." + k
            else:
                s += '."' + k.replace('"', '\\"') + '"'
        elif l[0] == "i":
            s += "[%d]" % l[1]
        elif l[0] == "last":
            s += "[last]"
        else:
            s += "[last-%d]" % l[1]
    return s


def gen_ops_case(rng, big):
    d = gen_doc(rng, big)
    ops = []
    sim = d
    for _ in range(rng.randint(2, 7)):
        m = rng.choice([0, 0, 1, 1, 2, 3, 3, 4, 5, 6, 6])
        legs = random_path(rng, sim)
        if m == 6:
            legs = [l for l in legs if l[0] in ("k", "i")]
        v = gen_json(rng, 1) if rng.random() < 0.8 else gen_json(rng, 2)
        ops.append({"m": m, "path": path_str(legs), "legs": legs, "val": v})
    return {"kind": "ops", "doc": d, "ops": ops}


def mutate(rng, d, n):
    d = json.loads(json.dumps(d))
    for _ in range(n):
        # walk to a random container
        cur = d
        for _ in range(rng.choice([0, 0, 1, 1, 2])):
            if isinstance(cur, dict) and cur:
                nxt = cur[rng.choice(sorted(cur))]
            elif isinstance(cur, list) and cur:
                nxt = cur[rng.randrange(len(cur))]
            else:
                break
            if isinstance(nxt, (dict, list)):
                cur = nxt
            else:
                break
        r = rng.random()
        if isinstance(cur, dict):
            if r < 0.35 and cur:
                cur[rng.choice(sorted(cur))] = gen_json(rng, 1)
            elif r < 0.7:
                cur[rng.choice(KEYS)] = gen_json(rng, 1)
            elif cur:
                del cur[rng.choice(sorted(cur))]
        elif isinstance(cur, list):
            if r < 0.35 and cur:
                cur[rng.randrange(len(cur))] = gen_json(rng, 1)
            elif r < 0.6:
                cur.append(gen_json(rng, 1))
            elif r < 0.8 and cur:
                cur.pop()
            elif cur:
                for _ in range(min(len(cur), 2)):
                    cur.pop()
    return d


def gen_merge_case(rng, kind="merge", big=False):
    base = {k: gen_json(rng, 2, big) for k in rng.sample(KEYS, rng.randint(2, 7))}
    if rng.random() < 0.5:
        base["a"] = {k: gen_json(rng, 1) for k in rng.sample(KEYS, rng.randint(1, 4))}
        base["ab"] = gen_json(rng, 1)
    if rng.random() < 0.5:
        base["z"] = [gen_scalar(rng) for _ in range(rng.randint(1, 5))]
    left = mutate(rng, base, rng.choice([0, 1, 1, 2, 3]))
    right = mutate(rng, base, rng.choice([0, 1, 1, 2, 3]))
    if rng.random() < 0.1:
        right = left
    if rng.random() < 0.04:
        left = gen_doc(rng, False)
    return {"kind": kind, "base": base, "left": left, "right": right}


def gen_array_vs_element_case(rng, kind="merge"):
    """one side replaces / removes an array (or object) as a whole, the other edits inside it"""
    key = rng.choice(["k", "a", "ab", "z"])
    container = rng.choice(["arr", "arr", "arr", "obj"])
    if container == "arr":
        inner = [gen_scalar(rng) for _ in range(rng.randint(2, 5))]
        edited = list(inner); edited[rng.randrange(len(inner))] = "edited"
    else:
        inner = {k: gen_scalar(rng) for k in rng.sample(KEYS, rng.randint(2, 4))}
        edited = dict(inner); edited[rng.choice(sorted(inner))] = "edited"
    base = {key: inner, "other": 1}
    whole = dict(base)
    if rng.random() < 0.35:
        del whole[key]
    else:
        whole[key] = rng.choice([5, "s", None, {"n": 1}, [0]]) if container == "arr" else rng.choice([5, "s", None, [1]])
    inside = dict(base); inside[key] = edited
    if rng.random() < 0.3:
        base = {"wrap": base}; whole = {"wrap": whole}; inside = {"wrap": inside}
    left, right = (whole, inside) if rng.random() < 0.5 else (inside, whole)
    return {"kind": kind, "base": base, "left": left, "right": right, "shape": "container-vs-inside-" + container}


LONG_IDX = [0, 1, 238, 239, 240, 240, 240, 241, 242, 250]


def gen_long_array_ops(rng):
    n = rng.choice([241, 245, 260, 300])
    elem = rng.choice([{"x": 1}, {"x": 1, "y": "v"}, [1, 2], {"x": {"y": 2}}])
    if rng.random() < 0.15:
        n = 2300
    doc = {"arr": [elem] * n} if rng.random() < 0.7 else [elem] * n
    pre = [("k", "arr")] if isinstance(doc, dict) else []
    ops = []
    idxs = LONG_IDX + ([2287, 2288, 2289] if n == 2300 else [])
    for _ in range(rng.randint(2, 3)):
        i = rng.choice(idxs)
        if isinstance(elem, dict):
            tail = rng.choice([[("k", "x")], [("k", "new")], [("k", "x")], []])
            if "y" in elem.get("x", {}) if isinstance(elem.get("x"), dict) else False:
                tail = rng.choice([[("k", "x"), ("k", "y")], tail])
        else:
            tail = rng.choice([[("i", 0)], [("i", 1)], []])
        legs = pre + [("i", i)] + tail
        m = rng.choice([0, 0, 1, 2, 3, 6, 6]) if tail else rng.choice([0, 2, 6])
        ops.append({"m": m, "path": path_str(legs), "legs": legs, "val": rng.choice([7, "nv", {"q": 1}, [3]])})
    return {"kind": "ops", "doc": doc, "ops": ops, "shape": "long-array"}


def gen_long_array_merge(rng):
    n = rng.choice([242, 245, 260])
    elem = rng.choice([{"x": 1}, {"x": 1, "y": "v"}, [1, 2]])
    base = {"arr": [elem] * n, "b": 1}
    left = json.loads(json.dumps(base)); left["b"] = 2
    right = json.loads(json.dumps(base))
    i = rng.choice([239, 240, 240, 240, 241])
    if isinstance(elem, dict):
        right["arr"][i] = dict(elem, x=rng.choice([9, "changed"]))
    else:
        right["arr"][i] = [elem[0], 99]
    if rng.random() < 0.5:
        left, right = right, left
    return {"kind": "merge", "base": base, "left": left, "right": right, "shape": "long-array"}


def gen_loc_case(rng):
    def p():
        legs = []
        for _ in range(rng.choice([0, 1, 1, 2, 2, 3])):
            if rng.random() < 0.6:
                legs.append(("k", rng.choice(KEYS)))
            else:
                legs.append(("i", rng.choice([0, 1, 2, 9, 239, 240, 240, 241, 242, 250, 300, 2047, 2048, 2287, 2288, 2289, 5000, 67823, 67824, 67825, 10 ** 6, 2 ** 24, 2 ** 32 + 5, 2 ** 56 + 1])))
        return legs
    a = p()
    b = p() if rng.random() < 0.6 else (a[:rng.randint(0, len(a))] + p()[:rng.randint(0, 2)])
    return {"kind": "loc", "p": path_str(a), "q": path_str(b), "pl": a, "ql": b}


FIXED_MERGES = [
    # refutation witnesses of the faithful model (replayed on the implementation on every run)
    {"kind": "merge", "base": {"a": {"x": 1}, "ab": 1}, "left": {"a": {"x": 2}, "ab": 2}, "right": {"a": {"x": 1}, "ab": 3}},
    {"kind": "merge", "base": {"a": {"x": 1}, "ab": 1}, "left": {"a": {"x": 1}, "ab": 2}, "right": {"a": {"x": 2}, "ab": 3}},
    {"kind": "merge", "base": {"a": [1, 2, 3], "b": 1}, "left": {"a": [1, 2, 3], "b": 2}, "right": {"a": [1], "b": 1}},
    {"kind": "sqlmerge", "base": {"a": {"x": 1}, "ab": 1}, "left": {"a": {"x": 2}, "ab": 2}, "right": {"a": {"x": 1}, "ab": 3}},
    {"kind": "sqlmerge", "base": {"a": [1, 2, 3], "b": 1}, "left": {"a": [1, 2, 3], "b": 2}, "right": {"a": [1], "b": 1}},
    {"kind": "merge", "base": {"a": 1, "b": 1}, "left": {"a": 2, "b": 1}, "right": {"a": 1, "b": 3}},
    {"kind": "merge", "base": {"a": 1, "b": 1}, "left": {"a": 2, "b": 1}, "right": {"a": 3, "b": 3}},
    {"kind": "merge", "base": {"a": {"p": 1}}, "left": {"a": {"p": 2}}, "right": {"b": 1}},
    {"kind": "merge", "base": {"z": [1, 2]}, "left": {"z": [9, 2]}, "right": {"z": [1, 8]}},
    {"kind": "merge", "base": {"z": [1, 2]}, "left": {"z": [9, 2]}, "right": {"z": [9, 2, 7]}},
]


def gen_cases(rng, tier):
    q = tier == "quick"
    n_ops, n_big, n_merge, n_loc, n_sql = (110, 14, 130, 150, 4) if q else (6000, 600, 8000, 5000, 150)
    cases = list(FIXED_MERGES)
    for _ in range(n_ops):
        cases.append(gen_ops_case(rng, False))
    for _ in range(n_big):
        cases.append(gen_ops_case(rng, True))
    for i in range(n_merge):
        cases.append(gen_merge_case(rng, big=(i % 15 == 0)))
    for _ in range(n_sql):
        cases.append(gen_merge_case(rng, "sqlmerge"))
    n_cvi, n_lops, n_lmerge = (24, 10, 6) if q else (600, 300, 150)
    for i in range(n_cvi):
        cases.append(gen_array_vs_element_case(rng, "sqlmerge" if (q and i < 2) else "merge"))
    for _ in range(n_lops):
        cases.append(gen_long_array_ops(rng))
    for _ in range(n_lmerge):
        cases.append(gen_long_array_merge(rng))
    for _ in range(n_loc):
        cases.append(gen_loc_case(rng))
    return cases


# ---------------------------------------------------------------- Coq printers
def cq_str_bytes(bs):
    """bytes as a Coq list, long runs of one byte spelled with pad"""
    bs = list(bs)
    if len(bs) < 48:
        return cq_bytes(bs)
    parts, lit, i = [], [], 0
    while i < len(bs):
        j = i
        while j < len(bs) and bs[j] == bs[i]:
            j += 1
        if j - i >= 32:
            if lit:
                parts.append(cq_bytes(lit)); lit = []
            parts.append("pad %d %d" % (bs[i], j - i))
        else:
            lit.extend(bs[i:j])
        i = j
    if lit:
        parts.append(cq_bytes(lit))
    return "(" + " ++ ".join(parts) + ")"


def cq_runs(items, pr):
    """a Coq list; long runs of equal consecutive elements are spelled with repeat"""
    if len(items) < 24:
        return cq_list(pr(x) for x in items)
    parts, lit, i = [], [], 0
    while i < len(items):
        j = i
        while j < len(items) and items[j] == items[i] and type(items[j]) == type(items[i]):
            j += 1
        if j - i >= 8:
            if lit:
                parts.append(cq_list(lit)); lit = []
            parts.append("repeat %s %d" % (pr(items[i]), j - i))
        else:
            lit.extend(pr(x) for x in items[i:j])
        i = j
    if lit:
        parts.append(cq_list(lit))
    return "(" + " ++ ".join(parts) + ")"


def cq_json(v):
    """python JSON value -> Coq term (objects sorted by key bytes)"""
    if v is None:
        return "JNull"
    if v is True or v is False:
        return "(JBool %s)" % cq_bool(v)
    if isinstance(v, int):
        return "(JNum (%d)%%Z)" % v
    if isinstance(v, float):
        if v != int(v):
            raise ValueError("non-integral number")
        return "(JNum (%d)%%Z)" % int(v)
    if isinstance(v, str):
        return "(JStr %s)" % cq_str_bytes(v.encode("utf-8"))
    if isinstance(v, list):
        return "(JArr %s)" % cq_runs(v, cq_json)
    items = sorted(((k.encode("utf-8"), x) for k, x in v.items()), key=lambda kv: kv[0])
    return "(JObj %s)" % cq_list("(%s, %s)" % (cq_bytes(k), cq_json(x)) for k, x in items)


def cq_canon(c):
    """harness canonical value -> Coq term"""
    t = c[0]
    if t == "n":
        return "JNull"
    if t == "b":
        return "(JBool %s)" % cq_bool(c[1])
    if t == "i":
        return "(JNum (%d)%%Z)" % c[1]
    if t == "s":
        return "(JStr %s)" % cq_str_bytes(c[1])
    if t == "a":
        return "(JArr %s)" % cq_runs(c[1], cq_canon)
    return "(JObj %s)" % cq_list("(%s, %s)" % (cq_bytes(k), cq_canon(x)) for k, x in c[1])


def cq_leg(l):
    if l[0] == "k":
        return "LKey %s" % cq_bytes(l[1].encode("utf-8"))
    if l[0] == "i":
        return "LIdx %d" % l[1]
    if l[0] == "last":
        return "LLast"
    return "LLastMinus %d" % l[1]


def cq_pelem(l):
    return ("PK %s" % cq_bytes(l[1].encode("utf-8"))) if l[0] == "k" else ("PI %d" % l[1])


def cq_ores(r):
    return "{| r_err := %s; r_chg := %s; r_found := %s; r_doc := %s |}" % (cq_bool(r["err"]), cq_bool(r["chg"]), cq_bool(r["found"]), cq_canon(r["doc"]))


def cq_mobs(r):
    return "{| m_err := %s; m_conflict := %s; m_doc := %s |}" % (cq_bool(r["err"]), cq_bool(r["conflict"]), cq_canon(r["doc"]))


def cq_keys(ks):
    return cq_list("(%s, %d)" % (cq_bytes(k["key"]), k["ty"]) for k in (ks or []))


def cq_in(case):
    k = case["kind"]
    if k == "ops":
        ops = cq_list("(%d, %s, %s)" % (o["m"], cq_list(cq_leg(tuple(l)) for l in o["legs"]), cq_json(o["val"])) for o in case["ops"])
        return "COps %s %s" % (cq_json(case["doc"]), ops)
    if k == "merge":
        return "CMerge %s %s %s" % (cq_json(case["base"]), cq_json(case["left"]), cq_json(case["right"]))
    if k == "sqlmerge":
        return "CSqlMerge %s %s %s" % (cq_json(case["base"]), cq_json(case["left"]), cq_json(case["right"]))
    return "CLoc %s %s" % (cq_list(cq_pelem(tuple(l)) for l in case["pl"]), cq_list(cq_pelem(tuple(l)) for l in case["ql"]))


def coq_case(case, out):
    o = out.get("obs")
    k = case["kind"]
    if o is None or out.get("panic") or out.get("err"):
        ob = "OBad"
    elif k == "ops":
        ob = "OOps %s" % cq_list("(%s, %s)" % (cq_ores(s["s"]), cq_ores(s["m"])) for s in o["steps"])
    elif k == "merge":
        if o.get("differr"):
            ob = "OBad"
        else:
            ob = "OMerge %s %s %s %s %s %s" % (cq_mobs(o["idx"]), cq_mobs(o["mem"]), cq_keys(o["ilkeys"]), cq_keys(o["irkeys"]), cq_keys(o["mlkeys"]), cq_keys(o["mrkeys"]))
    elif k == "sqlmerge":
        ob = "OSql %s" % cq_mobs(o["sql"])
    else:
        if o.get("err"):
            ob = "OLoc true [] [] 0%Z"
        else:
            ob = "OLoc false %s %s (%d)%%Z" % (cq_bytes(o["kp"]), cq_bytes(o["kq"]), o["cmp"])
    return "(%s, %s)" % (cq_in(case), ob)


# ---------------------------------------------------------------- distribution
def classify(case, out):
    o = out.get("obs")
    if o is None or out.get("panic") or out.get("err"):
        return ["panic-or-error"]
    k = case["kind"]
    t = [k]
    if case.get("shape") == "long-array":
        t.append("long-array-op" if k == "ops" else "long-array-merge")
        if k == "ops" and any(("i", 240) in [tuple(l) for l in op["legs"]] for op in case["ops"]):
            t.append("long-array-op-at-240")
    if case.get("shape", "").startswith("container-vs-inside"):
        t.append("merge-array-replaced-vs-element" if case["shape"].endswith("arr") else "merge-object-replaced-vs-member")
    if k == "loc" and any(tuple(l) == ("i", 240) for l in case.get("pl", []) + case.get("ql", [])):
        t.append("loc-index-240")
    if k == "ops":
        if o.get("kb", 0) >= 1:
            t.append("multi-chunk")
        for op, s in zip(case["ops"], o["steps"]):
            m = s["m"]
            if op["m"] == 6:
                t.append("lookup-found" if m["found"] else "lookup-missing")
            elif m["err"]:
                t.append("op-error")
            else:
                t.append("op-changed" if m["chg"] else "op-unchanged")
            if '"' in op["path"]:
                t.append("quoted-key")
            if "last" in op["path"]:
                t.append("last-leg")
            if json.dumps(s["s"], sort_keys=True) != json.dumps(s["m"], sort_keys=True):
                t.append("stored-differs-from-memory")
        return sorted(set(t))
    if k in ("merge", "sqlmerge"):
        r = o["idx"] if k == "merge" else o["sql"]
        t.append("merge-error" if r["err"] else ("merge-conflict" if r["conflict"] else "merge-clean"))
        if k == "merge" and o["ilkeys"] and o["irkeys"]:
            t.append("merge-both-sides")
        return t
    if o.get("err"):
        return t + ["loc-error"]
    t.append({-1: "loc-lt", 0: "loc-eq", 1: "loc-gt"}[o["cmp"]])
    return t


def nontrivial(case, out):
    o = out.get("obs") or {}
    if case["kind"] == "ops":
        return any(s["m"]["chg"] or s["m"]["found"] for s in o.get("steps", []))
    if case["kind"] == "merge":
        return bool(o.get("irkeys"))
    return True


# ---------------------------------------------------------------- known findings
def _varint(x):
    if x < 241:
        return [x]
    if x < 2288:
        return [(x - 240) // 256 + 241, (x - 240) % 256]
    if x < 67824:
        return [249, (x - 2288) // 256, (x - 2288) % 256]
    n = 3
    while x >= 1 << (8 * n):
        n += 1
    return [247 + n] + list(x.to_bytes(n, "big"))


def _pydiff(pre, a, b, out):
    if type(a) != type(b) or not isinstance(a, (dict, list)):
        if type(a) != type(b) or a != b:
            out.append((pre, "m"))
        return
    if isinstance(a, dict):
        for k in sorted(set(a) | set(b), key=lambda s: s.encode()):
            if k not in a:
                out.append((pre + [("k", k)], "a"))
            elif k not in b:
                out.append((pre + [("k", k)], "r"))
            else:
                _pydiff(pre + [("k", k)], a[k], b[k], out)
    else:
        for i in range(max(len(a), len(b))):
            if i >= len(a):
                out.append((pre + [("i", i)], "a"))
            elif i >= len(b):
                out.append((pre + [("i", i)], "r"))
            else:
                _pydiff(pre + [("i", i)], a[i], b[i], out)


def _enc(p):
    b = [0]
    for e in p:
        b += ([255] + list(e[1].encode())) if e[0] == "k" else ([254] + _varint(e[1]))
    return b


def _elems(p):
    return [list(e[1].encode()) if e[0] == "k" else _varint(e[1]) for e in p]


def _doc_cmp(p, q):
    a, b = _elems(p), _elems(q)
    return (a > b) - (a < b)


def merge_causes(case):
    causes = set()
    try:
        L, R = [], []
        _pydiff([], case["base"], case["left"], L)
        _pydiff([], case["base"], case["right"], R)
    except Exception:
        return causes
    for l, _ in L:
        for r, _ in R:
            raw = (_enc(l) > _enc(r)) - (_enc(l) < _enc(r))
            if raw != _doc_cmp(l, r):
                causes.add("json-merge:sibling-key-prefix-order")
    def same_arr(p, q):
        for x, y in zip(p, q):
            if x[0] == "i" and y[0] == "i":
                return True
            if x != y:
                return False
        return False
    if any(l != r and same_arr(l, r) for l, _ in L for r, _ in R):
        causes.add("json-merge:same-array-clash-missed")
    if any(t == "a" and r and r[-1] == ("i", 0) for r, t in R):
        causes.add("json-merge:add-into-empty-array-dropped")
    rem = {}
    for r, t in R:
        if t == "r" and r and r[-1][0] == "i":
            rem[json.dumps(r[:-1])] = rem.get(json.dumps(r[:-1]), 0) + 1
    if any(v >= 2 for v in rem.values()):
        causes.add("json-merge:array-shrink-removal-shift")
    return causes


def _uncanon(c):
    t = c[0]
    if t == "n":
        return None
    if t in ("b", "i"):
        return c[1]
    if t == "s":
        return bytes(c[1]).decode("utf8", "replace")
    if t == "a":
        return [_uncanon(x) for x in c[1]]
    return {bytes(k).decode("utf8", "replace"): _uncanon(v) for k, v in c[1]}


def op_cause(doc, legs, mode=0):
    """where the path first leaves the document decides which known stored-vs-in-memory divergence class applies"""
    legs = [tuple(l) for l in legs]
    if mode == 6 and any(l[0] == "k" and '"' in l[1] for l in legs):
        return "json-op:lookup-key-with-escaped-quote"
    if any(l[0] == "lastm" for l in legs):
        return "json-op:last-minus-n-leg"
    cur = doc
    for n, l in enumerate(legs):
        final = n == len(legs) - 1
        if l[0] == "k":
            if isinstance(cur, dict) and l[1] in cur:
                cur = cur[l[1]]
                continue
            return "json-op:other" if final else "json-op:missing-key-then-more-legs"
        if l[0] == "i":
            if isinstance(cur, list):
                if l[1] < len(cur):
                    cur = cur[l[1]]
                    continue
                if final and not cur:
                    return "json-op:index-into-empty-array"
                return "json-op:other" if final else "json-op:overflow-index-then-more-legs"
            return "json-op:index-leg-on-non-array" if final else "json-op:index-leg-on-non-array-then-more-legs"
        if l[0] == "last":
            if isinstance(cur, list) and cur:
                cur = cur[-1]
                continue
            return "json-op:last-leg-on-empty-or-non-array"
    return "json-op:other"


def op_causes(case, out):
    """classes of operations on which the stored and the in-memory implementation disagree in this case"""
    causes = set()
    o = out.get("obs") or {}
    cur = case.get("doc")
    for op, s in zip(case.get("ops", []), o.get("steps", [])):
        if json.dumps(s["s"], sort_keys=True) != json.dumps(s["m"], sort_keys=True):
            causes.add(op_cause(cur, op["legs"], op["m"]))
        if not s["s"]["err"] and op["m"] != 6:
            cur = _uncanon(s["s"]["doc"])
    return causes


def match_known(finding, case, out):
    key = finding.get("key", "")
    if case["kind"] in ("merge", "sqlmerge"):
        return key in merge_causes(case)
    if case["kind"] == "ops":
        if out.get("panic"):
            return key == "json-op:panic-in-stored-document-op"
        c = op_causes(case, out)
        # every divergence of the case must be of a listed class, otherwise the case is reported
        return key in c and "json-op:other" not in c
    return False


