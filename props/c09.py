"""C09 — The reference walker reports every address an object can dereference."""
import os
import subprocess
import sys

from lib import vlib
from lib.vlib import cq_list

ID = "C09"
HARNESS_PKG = "c09"
HARNESS_RUNNER = "c09"
COQ_TARGETS = ["theories/C09/Corr.vo"]
COQ_CORR_MODULE = "Gen.SchemaAddrs C09.Model C09.Spec C09.Corr"
COQ_CASE_TYPE = "C09.Corr.case"
COQ_CHECK = "C09.Corr.check_case"
COQ_MODEL_OBS = "(fun c => C09.Corr.model_obs (fst c))"
DESIGN_REF = "§5 C09, §6 F2"
TECHNIQUE = ("Coq proof (walker ⊇ loader for every message of every kind, parametrised by which optional working-set fields the walker source "
             "mentions) + flatbuffer schema and walker accessor lists regenerated from go/serial/*.fbs and serial_message.go + in-Coq correspondence "
             "against the real WalkAddrs and the real loaders over a recording chunk store")
LEVEL_TEXT = ("Proof (F/M): for every message kind and every assignment of optional fields, loads m ⊆ walk_addrs fl m whenever the walker source "
              "mentions all working-set fields (complete fl); for every walker version loads m ⊆ walk_addrs fl m ++ omitted fl m; an incomplete "
              "walker is refuted by a working set carrying rebase state / pre-merge head / pending hashes (walk_covers_loads_refuted). Which case "
              "holds for the current source is decided by the regenerated accessor list (walk_covers_loads_today). Every vector field of every "
              "flatbuffer table is regenerated and must be classified by the hand model (walk_covers_schema).")
LEVEL_NOTE = ("Trusted: Coq kernel, translator/c09_schema.py (regex transcription of .fbs fields and of the accessors named in each WalkAddrs case "
              "block), Go harness + Python glue. Modelled, not verified: flatbuffers decoding; the loaders are represented by the list of address "
              "fields they dereference and tied to the code by recording the chunk reads of the real loaders. Outside the model: legacy noms "
              "types, Doltgres root values (walker delegates to a hook), vector-index keys (documented in vectorindexnode.fbs as covered by the "
              "primary index), the base root-ish stored as JSON inside conflict-artifact values.")
THEOREMS = ["walk_covers_loads_complete", "walk_covers_loads_partial", "walk_covers_loads_refuted", "walk_covers_loads_today",
            "walk_covers_schema", "walk_covers_schema_complete", "walker_cases_pinned_ok", "schema_classified_ok", "oracle_model_when_complete"]
REFUTED = ["walk_covers_loads_refuted: the current source regenerates to f_art_base = false (walkMergeArtifactAddresses does not report the "
           "base root-ish stored in conflict-artifact values), so walk_covers_loads_today selects the refuted branch; witness artifact_witness, "
           "replayed on the implementation by the revert / revert_foreign scenarios"]
RULE = ("repository states built through SQL: six scenarios (no operation in progress, conflicted merge, conflicted cherry-pick, conflicted "
        "revert series with a pending commit, interactive rebase before and after a conflicting step) × random options (staged/unstaged "
        "changes, tags, stashes, foreign keys, secondary indexes, out-of-band TEXT/JSON, 3..1500 rows); non-trivial = the state carries at "
        "least one working set and one commit with a parent closure; distinct by recipe")
ASSUMPTIONS = ["objects are those reachable from the store root of repositories produced by the SQL engine (format __DOLT__)",
               "a loader's dereferences of an object are observed as the chunk reads, among the object's own address fields, made by the real "
               "loader functions listed in harness/c09/c09.go"]
REQUIRED_TAGS = ["ws-merge-state", "ws-rebase-state", "ws-pending", "ws-prehead", "staged-differs", "commit-two-parents", "commit-closure",
                 "table-artifacts", "table-secondary", "prim-children", "value-addrs", "stash", "tag", "fk", "scn-revert_foreign", "adaptive-out-of-band-small-value"]
HARNESS_TIMEOUT = 1500
COQ_SHARD = 40

SCNS = ["plain", "merge", "cherry", "revert", "rebase", "rebase_conflict", "revert_foreign"]


def gen_cases(rng, tier):
    per = 4 if tier == "quick" else 60
    cases = []
    # fixed corner recipes first: the refutation witnesses replayed on the implementation
    cases.append({"scn": "rebase", "rows": 3})
    cases.append({"scn": "revert", "pending": True, "rows": 3})
    cases.append({"scn": "rebase_conflict", "rows": 3, "staged": True, "unstaged": True})
    cases.append({"scn": "revert_foreign", "rows": 3, "commitc": True})      # witness of the ConflictMetadata.bc finding
    cases.append({"scn": "plain", "rows": 3, "wide": True})                   # wide rows: short out-of-band adaptive values
    cases.append({"scn": "merge", "rows": 5, "wide": True, "idx": True})
    cases.append({"scn": "plain", "rows": 1500, "idx": True, "blob": True, "fk": True, "tag": True, "stash": True, "staged": True, "unstaged": True})
    for scn in SCNS:
        for _ in range(per):
            c = {"scn": scn, "rows": rng.choice([3, 5, 30, 30, 400, 1500])}
            for k in ("staged", "unstaged", "tag", "stash", "fk", "idx", "blob"):
                c[k] = rng.random() < 0.5
            c["wide"] = rng.random() < 0.25
            if scn == "revert":
                c["pending"] = rng.random() < 0.6
            if scn == "revert_foreign":
                c["commitc"] = rng.random() < 0.5
            cases.append(c)
    return cases


def _ints(l):
    return cq_list(str(int(x)) for x in (l or []))


def _node(n):
    if n is None:
        return None
    k = n["k"]
    if k == "am":
        return "(NAddressMap %s)" % _ints(n["aa"])
    if k == "prolly":
        return "(NProlly %s %s)" % (_ints(n["aa"]), _ints(n["xa"]))
    if k == "vector":
        return "(NVector %s)" % _ints(n["aa"])
    raise ValueError("node kind " + k)


def _opt(x):
    return "None" if x is None else "(Some %s)" % x


def _msg(m):
    k = m["k"]
    a = m.get("a") or []
    if k == "storeroot":
        return "(MStoreRoot %s)" % _opt(_node(m.get("n1")))
    if k == "stashlist":
        return "(MStashList %s)" % _opt(_node(m.get("n1")))
    if k == "stash":
        return "(MStash %d %d)" % (a[0], a[1])
    if k == "tag":
        return "(MTag %d)" % a[0]
    if k == "ws":
        ms = m.get("ms")
        rs = m.get("rs")
        mss = None
        if ms is not None:
            mss = "{| ms_pre_working := %d; ms_from_commit := %d; ms_pre_head := %s; ms_pending := %s |}" % (
                ms["pw"], ms["fc"], _opt(None if ms.get("ph") is None else str(ms["ph"])), _ints(ms.get("pend")))
        rss = None
        if rs is not None:
            rss = "{| rs_pre_working := %d; rs_onto := %d |}" % (rs["pw"], rs["onto"])
        return "(MWorkingSet %d %s %s %s)" % (a[0], _opt(None if m.get("st") is None else str(m["st"])), _opt(mss), _opt(rss))
    if k == "root":
        return "(MRootValue %s %d)" % (_node(m["n1"]), a[0])
    if k == "table":
        return "(MTable %d {| cf_data := %d; cf_ours := %d; cf_theirs := %d; cf_anc := %d |} %d %d %s %s)" % (
            a[0], a[1], a[2], a[3], a[4], a[5], a[6], _node(m["n1"]), _node(m["n2"]))
    if k == "commit":
        return "(MCommit %s %d %d)" % (_ints(m.get("parents")), a[0], a[1])
    raise ValueError("msg kind " + k)


BAD = "([], {| o_objs := [([], [1])]; o_stray := 1 |})"


def coq_case(case, out):
    o = out.get("obs")
    if o is None or out.get("panic") or out.get("err"):
        return BAD
    try:
        msgs = cq_list(_msg(x["msg"]) for x in o["objs"])
        objs = cq_list("(%s, %s)" % (_ints(x["walked"]), _ints(x["loaded"])) for x in o["objs"])
    except (ValueError, KeyError, IndexError, TypeError):
        return BAD
    return "(%s, {| o_objs := %s; o_stray := %d |})" % (msgs, objs, int(o.get("stray", 0)) + int(o.get("stray_base", 0)))


def classify(case, out):
    o = out.get("obs")
    if o is None or out.get("panic") or out.get("err"):
        return ["panic-or-error"]
    t = ["scn-" + case.get("scn", "?")]
    if o.get("script_errs"):
        t.append("script-error")
    if o.get("stray"):
        t.append("stray-reads")
    if o.get("stray_base"):
        t.append("conflict-base-outside-closure")
    if o.get("small_oob"):
        t.append("adaptive-out-of-band-small-value")
    for x in o["objs"]:
        m = x["msg"]
        k = m["k"]
        a = m.get("a") or []
        if x.get("missing"):
            t.append("loaded-not-walked")
        if k == "ws":
            if m.get("ms"):
                t.append("ws-merge-state")
                if m["ms"].get("ph") is not None:
                    t.append("ws-prehead")
                if m["ms"].get("pend"):
                    t.append("ws-pending")
            if m.get("rs"):
                t.append("ws-rebase-state")
            if m.get("st") is not None and m["st"] != a[0]:
                t.append("staged-differs")
        elif k == "commit":
            if len(m.get("parents") or []) >= 2:
                t.append("commit-two-parents")
            if a[1] != 0:
                t.append("commit-closure")
        elif k == "table":
            if a[6] != 0:
                t.append("table-artifacts")
            if m["n1"]["aa"]:
                t.append("table-secondary")
            if m["n2"]["aa"]:
                t.append("prim-children")
            if m["n2"]["xa"]:
                t.append("value-addrs")
        elif k == "root":
            if a[0] != 0:
                t.append("fk")
        elif k in ("stash", "tag"):
            t.append(k)
    return sorted(set(t))


def nontrivial(case, out):
    o = out.get("obs")
    if not o:
        return False
    ks = [x["msg"]["k"] for x in o["objs"]]
    return "ws" in ks and "commit" in ks


def shrink_candidates(case):
    for k in ("staged", "unstaged", "tag", "stash", "fk", "idx", "blob", "pending", "wide"):
        if case.get(k):
            c = dict(case)
            c[k] = False
            yield c
    if case.get("rows", 3) > 3:
        c = dict(case)
        c["rows"] = 3
        yield c


def neighbours(case, rng):
    out = []
    for scn in SCNS:
        c = dict(case)
        c["scn"] = scn
        out.append(c)
    for k in ("staged", "unstaged", "tag", "stash", "fk", "idx", "blob", "pending"):
        c = dict(case)
        c[k] = not case.get(k)
        out.append(c)
    return out


def search_cases(rng):
    return [{"scn": s, "rows": 5, "pending": True, "staged": True, "unstaged": True, "tag": True, "stash": True, "fk": True, "idx": True, "blob": True}
            for s in SCNS]


# ---- known findings ----
# F2 (WorkingSet.WalkAddrs omissions) was repaired in go/store/types/serial_message.go: nothing of it is suppressed.
# Open: conflict artifacts record the base root-ish of the three-way merge as JSON (key "bc") inside the value
# tuple; message.walkMergeArtifactAddresses reports only the key addresses, while the dolt_conflicts_<t> reader
# dereferences that root-ish.  For revert conflicts the base (the reverted commit) is not reachable from the
# artifact's "their" root-ish, so the read leaves the table's walker closure.
KEY_ART_BASE = "MergeArtifacts.WalkAddresses:ConflictMetadata.bc"


def match_known(finding, case, out):
    o = out.get("obs")
    if not o or out.get("panic") or out.get("err") or finding.get("key") != KEY_ART_BASE:
        return False
    if o.get("stray") or not o.get("stray_base"):
        return False                     # any other stray read is not known
    for x in o["objs"]:
        if x.get("missing") or not set(x["loaded"]) <= set(x["walked"]):
            return False                 # any per-object omission is not known
    return all("conflict root-ish read" in d for d in (o.get("stray_detail") or []))


def run(ctx):
    """Regenerate Gen/SchemaAddrs.v from the source, then the generic flow."""
    with vlib.BuildLock():
        rc = subprocess.call([sys.executable, os.path.join(vlib.ROOT, "translator", "c09_schema.py"), vlib.REPO,
                              os.path.join(vlib.THEORIES, "Gen", "SchemaAddrs.v")])
    if rc != 0:
        ctx.notes.append("c09_schema.py failed (rc=%d): Gen/SchemaAddrs.v not regenerated" % rc)
        print("VIOLATION property=%s replay=- no-failing-input-found (schema regeneration failed: go/serial/*.fbs or WalkAddrs no longer parse)" % ID)
        return 1
    return vlib.run_generic(ctx)
